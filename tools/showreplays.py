#!/usr/bin/env python3
import json,sys,glob,os
d=sys.argv[1]
for f in sorted(glob.glob(os.path.join(d,'*.json'))):
    j=json.load(open(f))
    print('===',os.path.basename(f)); print(j.get('reason')); print(j.get('options'))
    print(j.get('source'))
    c=j.get('case',{})
    if 'inits' in c and c['inits']:
        i=c['inits'][0]
        nz={k:v for k,v in i['vars'].items() if not (isinstance(v,dict) and 'Bytes' in v and not any(v['Bytes']))}
        print('init:',nz,'x=',i['x'],'y=',i['y'])
