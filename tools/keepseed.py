#!/usr/bin/env python3
"""keepseed.py Cxx N : copy /tmp/wt-Cxx/SEEDED/N into /verif/seeded/Cxx-N (patch.diff, DEMO.md, demo inputs, meta.json)."""
import sys,os,shutil,json,glob
prop,n=sys.argv[1],sys.argv[2]
root=sys.argv[3] if len(sys.argv)>3 else f'/tmp/wt-{prop}'
dn=sys.argv[4] if len(sys.argv)>4 else n
src=f'{root}/SEEDED/{n}'
dst=f'/verif/seeded/{prop}-{dn}'
os.makedirs(dst,exist_ok=True)
for f in glob.glob(src+'/*'):
    if os.path.isdir(f): continue
    if os.path.getsize(f)>200000: continue
    shutil.copy(f,dst)
m=json.load(open(dst+'/meta.json'))
m['id']=f'{prop}-{dn}'
m['target_property']=prop
m['origin']='fresh sub-agent given only the property text and a scratch worktree'
m['confirmed']={'applies_to':'/repo HEAD at the time the worktree was made (see base)','repo_tests':'166 passed with the patch applied alone (tools/confirmseed.sh)'}
json.dump(m,open(dst+'/meta.json','w'),indent=1)
print('kept',dst)
