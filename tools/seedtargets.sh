#!/bin/bash
# seedtargets.sh [ids...] : apply each seeded change, run only the check of its target property (VERIF_SEED from env, default 1)
cd /verif
ids="$@"; [ -z "$ids" ] && ids=$(ls seeded | grep '^C[0-9][0-9]-[0-9a-z]$')
if [ -n "$(git -C /repo status --porcelain --untracked-files=no)" ]; then echo "/repo is not clean"; exit 3; fi
trap 'git -C /repo checkout -- . ; (cd /verif/engine && cargo build --release --offline 2>/dev/null); echo "[repo restored, engine rebuilt]"' EXIT
for id in $ids; do
  p=seeded/$id/patch.diff; [ -f seeded/$id/patch.rebased.diff ] && p=seeded/$id/patch.rebased.diff
  git -C /repo checkout -- .
  if ! git -C /repo apply $(realpath $p) 2>/dev/null; then echo "$id: PATCH DOES NOT APPLY"; continue; fi
  (cd engine && cargo build --release --offline >/dev/null 2>&1) || { echo "$id: build failed"; continue; }
  c=${id:0:3}
  out=$(VERIF_SEED=${VERIF_SEED:-1} timeout 1500 ./engine/target/release/vcheck $c quick 2>&1); code=$?
  echo "$id: exit=$code violations=$(echo "$out" | grep -c '^VIOLATION') $(echo "$out" | tail -1 | cut -c1-90)"
done
