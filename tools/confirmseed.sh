#!/bin/bash
# confirmseed.sh Cxx : in the scratch worktree /tmp/wt-Cxx apply each SEEDED/N/patch.diff alone and run the repository's tests
id="$1"; wt=${2:-/tmp/wt-$id}
cd $wt || exit 2
for n in 1 2; do
  [ -f SEEDED/$n/patch.diff ] || continue
  git checkout -q -- src
  if ! git apply --check SEEDED/$n/patch.diff 2>/dev/null; then echo "$id-$n: patch does not apply"; continue; fi
  git apply SEEDED/$n/patch.diff
  files=$(git diff --name-only | tr '\n' ' ')
  res=$(CARGO_NET_OFFLINE=true cargo test --workspace --offline 2>&1 | grep "test result" | head -1)
  echo "$id-$n: files=[$files] $res" 
  git checkout -q -- src
done
