#!/bin/bash
# seedmatrix.sh [ids...] : for every seeded change apply it to /repo, run all 18 quick checks, undo it.
# Writes /verif/seeded/matrix/<id>.txt (one line per check: "<check> <exit> <violation lines>").
cd /verif
ids="$@"; [ -z "$ids" ] && ids=$(ls seeded | grep '^C[0-9][0-9]-[0-9a-z]$')
mkdir -p seeded/matrix
if [ -n "$(git -C /repo status --porcelain --untracked-files=no)" ]; then echo "/repo is not clean"; exit 3; fi
trap 'git -C /repo checkout -- . ; (cd /verif/engine && cargo build --release --offline 2>/dev/null); echo "[repo restored, engine rebuilt]"' EXIT
for id in $ids; do
  p=seeded/$id/patch.diff; [ -f seeded/$id/patch.rebased.diff ] && p=seeded/$id/patch.rebased.diff
  git -C /repo checkout -- .
  if ! git -C /repo apply $(realpath $p); then echo "$id: patch does not apply" | tee seeded/matrix/$id.txt; continue; fi
  (cd engine && cargo build --release --offline >/dev/null 2>&1) || { echo "$id: build failed" | tee seeded/matrix/$id.txt; continue; }
  : > seeded/matrix/$id.txt
  for c in 01 02 03 04 05 06 07 08 09 10 11 12 13 14 15 16 17 18; do
    out=$(VERIF_SEED=${VERIF_SEED:-1} timeout 1500 ./engine/target/release/vcheck C$c quick 2>&1); code=$?
    n=$(echo "$out" | grep -c '^VIOLATION')
    first=$(echo "$out" | grep -A1 '^VIOLATION' | sed -n 2p | cut -c1-160)
    echo "C$c $code $n $first" >> seeded/matrix/$id.txt
  done
  echo "$id: $(awk '$2==1{printf "%s ", $1}' seeded/matrix/$id.txt)"
done
