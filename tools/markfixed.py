#!/usr/bin/env python3
"""markfixed.py KF-nn <commit> : turn an open finding into a 'fixed:' record (its repro stays a regression case)."""
import json, sys
kid, commit = sys.argv[1], sys.argv[2]
p = '/verif/known_findings.json'
k = json.load(open(p))
for f in k['findings']:
    if f['id'] == kid:
        f['status'] = 'fixed'
        f['exclusion'] = None
        f['commit'] = commit
        f['record'] = "fixed: property=%s %s %s" % (f['property'], commit, f['title'])
        break
else:
    sys.exit("no such finding")
json.dump(k, open(p, 'w'), indent=1)
print(f['record'])
