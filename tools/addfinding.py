#!/usr/bin/env python3
"""addfinding.py ID PROPERTY ALSO(comma or -) EXCLUSION(or -) REPLAY TITLE WHAT_FAILS"""
import json,sys,shutil,os
id_,prop,also,excl,replay,title,what=sys.argv[1:8]
root='/verif'
kf=os.path.join(root,'known_findings.json')
d=json.load(open(kf)) if os.path.exists(kf) else {"findings":[]}
dst=f'findings/{id_}.json'
os.makedirs(os.path.join(root,'findings'),exist_ok=True)
shutil.copy(replay,os.path.join(root,dst))
d['findings']=[f for f in d['findings'] if f['id']!=id_]
d['findings'].append({"id":id_,"property":prop,"also":[] if also=='-' else also.split(','),"status":"open",
 "title":title,"what_fails":what,"repro":dst,"exclusion":None if excl=='-' else excl})
d['findings'].sort(key=lambda f:f['id'])
json.dump(d,open(kf,'w'),indent=1)
print('added',id_)
