#!/usr/bin/env python3
"""Regenerates /verif/MANIFEST.json from the table below."""
import json
ALL=["C%02d"%i for i in range(1,19)]
CHECKS={
 "C01":dict(technique="property-based differential testing: generated programs executed on an own 6502 emulator vs. a reference C interpreter (agreement domain of ISO and narrow readings), AST-level shrinking",
   text="Exploration: tens of thousands (quick) to millions (thorough) of generated programs x 8-16 random input vectors are compiled, assembled by an independent assembler, executed on an independent emulator and compared with the reference interpreter RefC. Finds any miscompilation reachable by the generator's program shapes outside the listed known findings; cannot show absence.",
   note="Trusted: asm6502, emu6502, refc, layout (own code, cross-validated against each other). Comparison only where all RefC readings agree and no UB; shapes of open known findings are excluded (known_findings.json).",
   ref="DESIGN.md 5/C01"),
 "C02":dict(technique="property-based differential testing: -O0 vs -O1/-O2/-O3 co-execution on the emulator from identical random states",
   text="Exploration: generated programs (optimizer-stress patterns, inline asm) are compiled with and without the peephole optimizer and co-executed; any difference in halting or final state is a violation.",
   note="Trusted: asm6502, emu6502; -O0 output is the reference; vectors with UB in the source (RefC) are skipped.",
   ref="DESIGN.md 5/C02"),
 "C03":dict(technique="property-based testing of AssemblyCode::check_branches through its public API (random skeletons) with an abstract-interpreter oracle, plus generated long-body programs",
   text="Exploration: random function skeletons with branches around the +-127 limit and far beyond are repaired, assembled with real encodings (range check) and executed for all 8 N/Z/C states; the store sequence must equal that of an interpreter of the unrepaired line list.",
   note="Trusted: asm6502, emu6502, the 60-line abstract interpreter; fillers declare true sizes.",
   ref="DESIGN.md 5/C03"),
 "C04":dict(technique="property-based testing: size_bytes() vs. byte count from an independent assembler over generated programs and memory placements",
   text="Exploration: for every emitted function of generated programs (zero page / absolute / split-port / ROM operands, inline asm with and without hints) the reported size must equal the assembled size.",
   note="Trusted: asm6502's dasm-compatible zero-page/absolute selection; layout contract Zeropage < $100 <= others.",
   ref="DESIGN.md 5/C04"),
 "C07":dict(technique="property-based testing with a constructive model: random conditional-directive trees generated together with their expected surviving lines / first live #error",
   text="Exploration: random well-nested #if/#ifdef/#ifndef/#elif/#else/#endif trees (depth <= 5) with marker declarations, #define/#undef/#error/#include in every region; the set of declarations that reaches the compiler must equal the model's.",
   note="Trusted: the 100-line model of the condition language (0/1 literals, macros with 0/1 values, !, ==); valueless macros are only tested with #ifdef/#ifndef.",
   ref="DESIGN.md 5/C07"),
 "C10":dict(technique="property-based testing: random constant-expression trees vs. exact ISO-C evaluation (64-bit reference evaluator), in every constant position and folded in statements (value read back from the emulator)",
   text="Exploration: random trees over all operators of the statement, printed with C-minimal parentheses, in 7 syntactic positions; values must match, undefined cases (division by zero, 32-bit overflow, out-of-range literal or shift) must be rejected, panics are violations.",
   note="Trusted: the reference evaluator; 'does not fit' = the evaluator's 32-bit range; conversion of an in-range constant to a narrower declared type is not demanded to be an error.",
   ref="DESIGN.md 5/C10"),
 "C13":dict(technique="property-based testing: every emitted function of generated programs is assembled by an independent two-pass assembler (legal modes, defined symbols, unique labels, branch range)",
   text="Exploration over generated programs with heavy inlining, goto labels, long bodies and all optimisation levels; any assembler error is a violation.",
   note="Trusted: asm6502 (official 6502 opcode table, dasm operand syntax).",
   ref="DESIGN.md 5/C13"),
}
checks=[]
for pid,c in CHECKS.items():
    checks.append({
      "property_id":pid,
      "quick_cmd":"bin/check %s quick"%pid,
      "thorough_cmd":"bin/check %s thorough"%pid,
      "evidence_file":"/verif/evidence/%s.json"%pid,
      "replay_cmd_template":"engine/target/release/vcheck replay {path}",
      "engine":"vengine",
      "level_claimed":{"category":"exploration","text":c["text"],"design_ref":c["ref"]},
      "level_note":c["note"],
      "technique":c["technique"],
    })
na=[{"property_id":p,"reason":"check not built yet in this session (planned; see DESIGN.md section 5)"} for p in ALL if p not in CHECKS]
m={
 "version":1,
 "setup_cmd":"cd /verif/engine && CARGO_NET_OFFLINE=true cargo build --release --offline",
 "hooks":{"guard":"none","enable":"no source hooks: the harness is a downstream crate using cc6502's public API only (path dependency on /repo, feature atari2600)",
          "baseline_off_cmd":"cd /repo && cargo test --workspace --no-fail-fast --offline","source_commits":[],"add_only":True},
 "engines":[{"name":"vengine","path":"engine","serves_properties":sorted(CHECKS.keys()),
             "kind_free_text":"Rust property-based testing engine: proptest runners with AST-level shrinking, own 6502 assembler + emulator, reference C interpreter, known-findings/exclusion machinery"}],
 "checks":checks,
 "not_applicable":na,
 "notes":"exit 2 = inconclusive (build failure, harness trouble). Genuine defects found are in known_findings.json (open = KNOWN-FINDING lines + exclusion rules; fixed = 'fix:' commits in /repo, replayed as regressions)."
}
json.dump(m,open('/verif/MANIFEST.json','w'),indent=1)
print("checks:",len(checks),"not_applicable:",len(na))
