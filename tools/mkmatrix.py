#!/usr/bin/env python3
"""mkmatrix.py : /verif/seeded/matrix/*.txt -> /verif/seeded/MATRIX.md (which quick checks fail on which seeded change)."""
import glob,json,os,re
rows=[]
checks=["C%02d"%i for i in range(1,19)]
for f in sorted(glob.glob('/verif/seeded/matrix/*.txt')):
    sid=os.path.basename(f)[:-4]
    res={}
    for l in open(f):
        p=l.split(' ',3)
        if len(p)>=3 and re.match(r'C\d\d$',p[0]):
            res[p[0]]=(p[1],p[2],p[3].strip() if len(p)>3 else '')
    meta={}
    try: meta=json.load(open(f'/verif/seeded/{sid}/meta.json'))
    except Exception: pass
    rows.append((sid,res,meta))
out=["# Seeded changes x quick checks","",
"Produced by `tools/seedmatrix.sh` (each change applied alone to /repo's HEAD, every registered quick check run with VERIF_SEED=1, change undone) and `tools/mkmatrix.py`.",
"`X` = the check exits 1 with VIOLATION lines, `.` = exits 0, `?` = exit 2 (inconclusive). The target property of a change is the `Cxx` of its id.","",
"| change | "+" | ".join(c[1:] for c in checks)+" | target caught | summary |","|---|"+"|".join("--" for _ in checks)+"|---|---|"]
caught=0
for sid,res,meta in rows:
    tgt=sid[:3]
    cells=[]
    for c in checks:
        r=res.get(c)
        cells.append('X' if r and r[0]=='1' else ('?' if r and r[0] not in('0','1') else ('.' if r else ' ')))
    ok=res.get(tgt,('0',))[0]=='1'
    caught+=ok
    out.append(f"| {sid} | "+" | ".join(cells)+f" | {'yes' if ok else 'NO'} | {meta.get('summary','')[:140].replace('|','/')} |")
out+=["",f"Target property's check catches {caught} of {len(rows)} changes.",""]
out.append("## First line of the target check's report\n")
for sid,res,meta in rows:
    r=res.get(sid[:3])
    if r: out.append(f"* **{sid}**: {r[2][:200]}")
open('/verif/seeded/MATRIX.md','w').write("\n".join(out)+"\n")
print(f"{caught}/{len(rows)}")
