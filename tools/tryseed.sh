#!/bin/bash
# tryseed.sh <patch.diff> <ID>...  : apply a seeded change to /repo, run the quick checks, undo it.
set -u
patch="$(realpath "$1")"; shift
cd /verif
if [ -n "$(git -C /repo status --porcelain --untracked-files=no)" ]; then echo "/repo is not clean"; exit 3; fi
trap 'git -C /repo checkout -- . ; (cd /verif/engine && cargo build --release --offline 2>/dev/null); echo "[repo restored, engine rebuilt]"' EXIT
git -C /repo apply "$patch" || { echo "patch does not apply"; exit 3; }
for id in "$@"; do
  out=$(VERIF_SEED=${VERIF_SEED:-1} ./bin/check "$id" ${TIER:-quick} 2>&1); code=$?
  echo "== $id exit=$code $(echo "$out" | grep -c '^VIOLATION') violation line(s)"
  echo "$out" | grep -A1 '^VIOLATION' | head -${SHOW:-6}
  echo "$out" | tail -1
done
