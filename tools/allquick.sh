#!/bin/bash
# allquick.sh [seed...] : every registered quick check on the current tree, one line each
cd /verif
for s in "${@:-1}"; do
  for id in C01 C02 C03 C04 C05 C06 C07 C08 C09 C10 C11 C12 C13 C14 C15 C16 C17 C18; do
    out=$(VERIF_SEED=$s ./bin/check $id quick 2>&1); code=$?
    echo "seed=$s $id exit=$code $(echo "$out" | grep -c '^VIOLATION') viol | $(echo "$out" | tail -1)"
    echo "$out" | grep -A1 '^VIOLATION' | head -4
  done
done
