//! Link (layout + assemble) a compiled program and execute it on the emulator.
use crate::asm6502::{self, AsmError, Assembled, Source};
use crate::cc::Capture;
use crate::emu6502::{Access, Cpu, Fault, Stop, HALT};
use crate::layout::{self, Layout, LayoutError, MemClass, CODE_START};
use std::collections::BTreeMap;

#[derive(Debug, Clone)]
pub enum LinkError {
    Layout(LayoutError),
    Asm(AsmError),
    NoMain,
}

#[derive(Debug, Clone)]
pub struct Image {
    pub layout: Layout,
    pub asm: Assembled,
    pub entry: u16,
}

/// Which functions to hand to the assembler
#[derive(Debug, Clone, Copy, PartialEq)]
pub enum Which {
    /// what a linker emits: non-inline functions with code that are in use
    InUse,
    /// every non-inline function with code
    AllNonInline,
}

pub fn link(cap: &Capture, scheme: &str, shuffle: u32, which: Which) -> Result<Image, LinkError> {
    let layout = layout::build(cap, scheme, shuffle).map_err(LinkError::Layout)?;
    let mut units = vec![];
    for f in &cap.funcs {
        if !f.has_code || f.inline {
            continue;
        }
        if which == Which::InUse && !cap.in_use.contains(&f.name) {
            continue;
        }
        units.push(Source {
            name: &f.name,
            text: &f.asm,
            epilogue: if f.interrupt { "\tRTI\n" } else { "\tRTS\n" },
        });
    }
    if !units.iter().any(|u| u.name == "main") {
        return Err(LinkError::NoMain);
    }
    let asm = asm6502::assemble(&units, CODE_START + 4, &layout.symbols).map_err(|e| {
        if e.kind == asm6502::AsmErrorKind::ImageTooLarge {
            LinkError::Layout(LayoutError::RomFull)
        } else {
            LinkError::Asm(e)
        }
    })?;
    Ok(Image { layout, asm, entry: CODE_START })
}

/// Initial state by variable name (C-level names for globals; mangled names for locals).
#[derive(Debug, Clone, Default, PartialEq, serde::Serialize, serde::Deserialize)]
pub struct Init {
    pub vars: BTreeMap<String, InitVal>,
    pub x: u8,
    pub y: u8,
    pub a: u8,
    pub p: u8,
    /// filler seed for every RAM byte not named in `vars`
    pub fill: u32,
}

#[derive(Debug, Clone, PartialEq, serde::Serialize, serde::Deserialize)]
pub enum InitVal {
    Bytes(Vec<u8>),
    /// pointer to (object, offset)
    Ptr(String, i32),
}

#[derive(Debug, Clone)]
pub struct RunResult {
    pub stop: Stop,
    pub cycles: u64,
    pub instructions: u64,
    pub x: u8,
    pub y: u8,
    pub a: u8,
    /// final bytes of every RAM object (read through the read port)
    pub vars: BTreeMap<String, Vec<u8>>,
    pub faults: Vec<Fault>,
    pub trace: Vec<Access>,
}

pub fn fill_byte(seed: u32, addr: u16) -> u8 {
    let mut h = seed ^ (addr as u32).wrapping_mul(0x9E37_79B1);
    h ^= h >> 15;
    h = h.wrapping_mul(0x85EB_CA6B);
    h ^= h >> 13;
    (h & 0xff) as u8
}

pub struct Machine {
    pub cpu: Cpu,
}

impl Machine {
    pub fn new() -> Machine {
        Machine { cpu: Cpu::new() }
    }

    pub fn load(&mut self, img: &Image, init: &Init) {
        let cpu = &mut self.cpu;
        cpu.mem.fill(0);
        // RAM filler
        for a in 0..0x1000u16 {
            cpu.mem[a as usize] = fill_byte(init.fill, a);
        }
        for a in 0x1000..0x1800u16 {
            cpu.mem[a as usize] = fill_byte(init.fill, a);
        }
        for (a, b) in &img.asm.bytes {
            cpu.mem[*a as usize] = *b;
        }
        // stub: JSR main ; HALT
        let main = *img.asm.globals.get("main").unwrap_or(&0) as u16;
        let e = img.entry as usize;
        cpu.mem[e] = 0x20;
        cpu.mem[e + 1] = (main & 0xff) as u8;
        cpu.mem[e + 2] = (main >> 8) as u8;
        cpu.mem[e + 3] = HALT;
        for o in &img.layout.objects {
            if let Some(rom) = &o.rom_init {
                for (i, b) in rom.iter().enumerate() {
                    cpu.mem[o.addr as usize + i] = *b;
                }
            }
        }
        for o in &img.layout.objects {
            if o.class == MemClass::Rom {
                continue;
            }
            if let Some(iv) = init.vars.get(&o.name) {
                let bytes: Vec<u8> = match iv {
                    InitVal::Bytes(b) => b.clone(),
                    InitVal::Ptr(t, off) => {
                        let base = img.layout.symbols.get(t).copied().unwrap_or(0);
                        let a = (base + *off as i64) as u16;
                        vec![(a & 0xff) as u8, (a >> 8) as u8]
                    }
                };
                for i in 0..(o.bytes as usize) {
                    let b = bytes.get(i).copied().unwrap_or(0);
                    // backing store lives at the read address
                    cpu.mem[o.read_addr as usize + i] = b;
                }
            }
        }
        cpu.ports = img.layout.ports.clone();
        cpu.faults.clear();
        cpu.trace.clear();
        cpu.a = init.a;
        cpu.x = init.x;
        cpu.y = init.y;
        cpu.set_flags(init.p & !0x08); // binary mode
        cpu.sp = 0xff;
        cpu.pc = img.entry;
        cpu.cycles = 0;
        cpu.instructions = 0;
    }

    pub fn run(&mut self, img: &Image, init: &Init, max_cycles: u64) -> RunResult {
        self.load(img, init);
        let stop = self.cpu.run(max_cycles);
        self.result(img, stop)
    }

    pub fn result(&mut self, img: &Image, stop: Stop) -> RunResult {
        let cpu = &mut self.cpu;
        let mut vars = BTreeMap::new();
        for o in &img.layout.objects {
            if o.class == MemClass::Rom {
                continue;
            }
            let b: Vec<u8> = (0..o.bytes as usize).map(|i| cpu.mem[o.read_addr as usize + i]).collect();
            vars.insert(o.name.clone(), b);
        }
        RunResult {
            stop,
            cycles: cpu.cycles,
            instructions: cpu.instructions,
            x: cpu.x,
            y: cpu.y,
            a: cpu.a,
            vars,
            faults: cpu.faults.clone(),
            trace: cpu.trace.clone(),
        }
    }
}
