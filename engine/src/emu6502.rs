//! Cycle-counting NMOS 6502 interpreter (official opcodes, binary mode only).
use crate::asm6502::{Mode, OPCODES};

#[derive(Debug, Clone, Copy, PartialEq, Eq)]
pub enum AccessKind {
    Read,
    Write,
    /// the read half / write half of a read-modify-write instruction
    RmwRead,
    RmwWrite,
}

#[derive(Debug, Clone, Copy, PartialEq, Eq)]
pub struct Access {
    pub addr: u16,
    pub kind: AccessKind,
    pub value: u8,
    pub cycle: u64,
    pub pc: u16,
}

#[derive(Debug, Clone, Copy, PartialEq, Eq)]
pub struct Port {
    pub read_base: u16,
    pub write_base: u16,
    pub len: u16,
}

#[derive(Debug, Clone, PartialEq, Eq)]
pub enum Fault {
    ReadOfWritePort { addr: u16, pc: u16 },
    WriteOfReadPort { addr: u16, pc: u16 },
    RmwOnPort { addr: u16, pc: u16 },
}

#[derive(Debug, Clone, Copy, PartialEq, Eq)]
pub enum Stop {
    Halt,
    IllegalOpcode(u8, u16),
    CycleLimit,
    Decimal(u16),
    StackOverflow(u16),
}

#[derive(Clone, Copy)]
struct Dec {
    mn: &'static str,
    op: Op,
    mode: Mode,
    cycles: u8,
    page_cross: bool,
}

#[derive(Clone, Copy, PartialEq, Eq, Debug)]
enum Op {
    ADC, AND, ASL, BCC, BCS, BEQ, BMI, BNE, BPL, BVC, BVS, BIT, BRK, CLC, CLD, CLI, CLV, CMP, CPX, CPY, DEC, DEX,
    DEY, EOR, INC, INX, INY, JMP, JSR, LDA, LDX, LDY, LSR, NOP, ORA, PHA, PHP, PLA, PLP, ROL, ROR, RTI, RTS, SBC,
    SEC, SED, SEI, STA, STX, STY, TAX, TAY, TSX, TXA, TXS, TYA,
}

fn op_of(m: &str) -> Op {
    use Op::*;
    match m {
        "ADC" => ADC, "AND" => AND, "ASL" => ASL, "BCC" => BCC, "BCS" => BCS, "BEQ" => BEQ, "BMI" => BMI,
        "BNE" => BNE, "BPL" => BPL, "BVC" => BVC, "BVS" => BVS, "BIT" => BIT, "BRK" => BRK, "CLC" => CLC,
        "CLD" => CLD, "CLI" => CLI, "CLV" => CLV, "CMP" => CMP, "CPX" => CPX, "CPY" => CPY, "DEC" => DEC,
        "DEX" => DEX, "DEY" => DEY, "EOR" => EOR, "INC" => INC, "INX" => INX, "INY" => INY, "JMP" => JMP,
        "JSR" => JSR, "LDA" => LDA, "LDX" => LDX, "LDY" => LDY, "LSR" => LSR, "NOP" => NOP, "ORA" => ORA,
        "PHA" => PHA, "PHP" => PHP, "PLA" => PLA, "PLP" => PLP, "ROL" => ROL, "ROR" => ROR, "RTI" => RTI,
        "RTS" => RTS, "SBC" => SBC, "SEC" => SEC, "SED" => SED, "SEI" => SEI, "STA" => STA, "STX" => STX,
        "STY" => STY, "TAX" => TAX, "TAY" => TAY, "TSX" => TSX, "TXA" => TXA, "TXS" => TXS, "TYA" => TYA,
        _ => unreachable!(),
    }
}

fn decode_table() -> &'static [Option<Dec>; 256] {
    use std::sync::OnceLock;
    static T: OnceLock<[Option<Dec>; 256]> = OnceLock::new();
    T.get_or_init(|| {
        let mut t: [Option<Dec>; 256] = [None; 256];
        for o in OPCODES {
            assert!(t[o.2 as usize].is_none(), "duplicate opcode {:02x}", o.2);
            t[o.2 as usize] = Some(Dec { mn: o.0, op: op_of(o.0), mode: o.1, cycles: o.3, page_cross: o.4 });
        }
        t
    })
}

/// opcode byte used as "halt" marker by the harness stubs (an illegal NMOS opcode)
pub const HALT: u8 = 0x02;

pub struct Cpu {
    pub a: u8,
    pub x: u8,
    pub y: u8,
    pub sp: u8,
    pub pc: u16,
    pub n: bool,
    pub v: bool,
    pub d: bool,
    pub i: bool,
    pub z: bool,
    pub c: bool,
    pub cycles: u64,
    pub mem: Box<[u8; 65536]>,
    pub ports: Vec<Port>,
    pub faults: Vec<Fault>,
    /// record accesses whose address lies in one of these ranges (inclusive)
    pub watch: Vec<(u16, u16)>,
    pub trace: Vec<Access>,
    pub trace_limit: usize,
    pub instructions: u64,
    cur_pc: u16,
}

impl Cpu {
    pub fn new() -> Cpu {
        Cpu {
            a: 0,
            x: 0,
            y: 0,
            sp: 0xff,
            pc: 0,
            n: false,
            v: false,
            d: false,
            i: false,
            z: false,
            c: false,
            cycles: 0,
            mem: vec![0u8; 65536].into_boxed_slice().try_into().unwrap(),
            ports: vec![],
            faults: vec![],
            watch: vec![],
            trace: vec![],
            trace_limit: 4096,
            instructions: 0,
            cur_pc: 0,
        }
    }

    pub fn set_flags(&mut self, p: u8) {
        self.n = p & 0x80 != 0;
        self.v = p & 0x40 != 0;
        self.d = p & 0x08 != 0;
        self.i = p & 0x04 != 0;
        self.z = p & 0x02 != 0;
        self.c = p & 0x01 != 0;
    }
    pub fn flags(&self) -> u8 {
        (self.n as u8) << 7
            | (self.v as u8) << 6
            | 0x20
            | (self.d as u8) << 3
            | (self.i as u8) << 2
            | (self.z as u8) << 1
            | self.c as u8
    }

    #[inline]
    fn note(&mut self, addr: u16, kind: AccessKind, value: u8) {
        if !self.watch.is_empty() && self.trace.len() < self.trace_limit {
            for w in &self.watch {
                if addr >= w.0 && addr <= w.1 {
                    self.trace.push(Access { addr, kind, value, cycle: self.cycles, pc: self.cur_pc });
                    break;
                }
            }
        }
    }

    #[inline]
    fn rd(&mut self, addr: u16, kind: AccessKind) -> u8 {
        let mut eff = addr;
        if !self.ports.is_empty() {
            for p in &self.ports {
                if addr >= p.write_base && (addr - p.write_base) < p.len {
                    self.faults.push(Fault::ReadOfWritePort { addr, pc: self.cur_pc });
                    eff = addr - p.write_base + p.read_base;
                    break;
                }
            }
        }
        let v = self.mem[eff as usize];
        self.note(addr, kind, v);
        v
    }

    #[inline]
    fn wr(&mut self, addr: u16, v: u8, kind: AccessKind) {
        let mut eff = addr;
        if !self.ports.is_empty() {
            for p in &self.ports {
                if addr >= p.write_base && (addr - p.write_base) < p.len {
                    eff = addr - p.write_base + p.read_base;
                    break;
                }
                if addr >= p.read_base && (addr - p.read_base) < p.len {
                    self.faults.push(Fault::WriteOfReadPort { addr, pc: self.cur_pc });
                    self.note(addr, kind, v);
                    return; // a write to the read port does not reach the RAM
                }
            }
        }
        self.mem[eff as usize] = v;
        self.note(addr, kind, v);
    }

    fn in_port(&self, addr: u16) -> bool {
        self.ports.iter().any(|p| {
            (addr >= p.write_base && (addr - p.write_base) < p.len) || (addr >= p.read_base && (addr - p.read_base) < p.len)
        })
    }

    #[inline]
    fn fetch(&mut self) -> u8 {
        let v = self.mem[self.pc as usize];
        self.pc = self.pc.wrapping_add(1);
        v
    }
    #[inline]
    fn fetch16(&mut self) -> u16 {
        let lo = self.fetch() as u16;
        let hi = self.fetch() as u16;
        lo | hi << 8
    }
    #[inline]
    fn nz(&mut self, v: u8) {
        self.n = v & 0x80 != 0;
        self.z = v == 0;
    }
    fn push(&mut self, v: u8) {
        self.mem[0x100 + self.sp as usize] = v;
        self.sp = self.sp.wrapping_sub(1);
    }
    fn pop(&mut self) -> u8 {
        self.sp = self.sp.wrapping_add(1);
        self.mem[0x100 + self.sp as usize]
    }

    fn adc(&mut self, m: u8) {
        let sum = self.a as u16 + m as u16 + self.c as u16;
        let r = sum as u8;
        self.v = (!(self.a ^ m) & (self.a ^ r) & 0x80) != 0;
        self.c = sum > 0xff;
        self.a = r;
        self.nz(r);
    }

    fn cmp(&mut self, r: u8, m: u8) {
        let d = r.wrapping_sub(m);
        self.c = r >= m;
        self.nz(d);
    }

    /// Execute one instruction.
    pub fn step(&mut self) -> Option<Stop> {
        self.cur_pc = self.pc;
        let opc = self.fetch();
        let dec = match decode_table()[opc as usize] {
            Some(d) => d,
            None => {
                self.pc = self.cur_pc;
                if opc == HALT {
                    return Some(Stop::Halt);
                }
                return Some(Stop::IllegalOpcode(opc, self.cur_pc));
            }
        };
        self.instructions += 1;
        let mut cyc = dec.cycles as u64;
        // effective address
        let mut addr: u16 = 0;
        let mut crossed = false;
        match dec.mode {
            Mode::Imp => {}
            Mode::Imm => {
                addr = self.pc;
                self.pc = self.pc.wrapping_add(1);
            }
            Mode::Zp => addr = self.fetch() as u16,
            Mode::ZpX => addr = self.fetch().wrapping_add(self.x) as u16,
            Mode::ZpY => addr = self.fetch().wrapping_add(self.y) as u16,
            Mode::Abs => addr = self.fetch16(),
            Mode::AbsX => {
                let b = self.fetch16();
                addr = b.wrapping_add(self.x as u16);
                crossed = (b & 0xff00) != (addr & 0xff00);
            }
            Mode::AbsY => {
                let b = self.fetch16();
                addr = b.wrapping_add(self.y as u16);
                crossed = (b & 0xff00) != (addr & 0xff00);
            }
            Mode::Ind => {
                let p = self.fetch16();
                let lo = self.mem[p as usize] as u16;
                let hi = self.mem[((p & 0xff00) | ((p.wrapping_add(1)) & 0xff)) as usize] as u16;
                addr = lo | hi << 8;
            }
            Mode::IndX => {
                let z = self.fetch().wrapping_add(self.x);
                let lo = self.mem[z as usize] as u16;
                let hi = self.mem[z.wrapping_add(1) as usize] as u16;
                addr = lo | hi << 8;
            }
            Mode::IndY => {
                let z = self.fetch();
                // pointer bytes are read from zero page (watched as reads)
                let lo = self.rd(z as u16, AccessKind::Read) as u16;
                let hi = self.rd(z.wrapping_add(1) as u16, AccessKind::Read) as u16;
                let b = lo | hi << 8;
                addr = b.wrapping_add(self.y as u16);
                crossed = (b & 0xff00) != (addr & 0xff00);
            }
            Mode::Rel => {
                let off = self.fetch() as i8;
                addr = self.pc.wrapping_add(off as i16 as u16);
            }
        }
        if dec.page_cross && crossed {
            cyc += 1;
        }
        let imm_or_mem = |cpu: &mut Cpu| -> u8 {
            if dec.mode == Mode::Imm {
                cpu.mem[addr as usize]
            } else {
                cpu.rd(addr, AccessKind::Read)
            }
        };
        use Op::*;
        match dec.op {
            LDA => {
                let v = imm_or_mem(self);
                self.a = v;
                self.nz(v);
            }
            LDX => {
                let v = imm_or_mem(self);
                self.x = v;
                self.nz(v);
            }
            LDY => {
                let v = imm_or_mem(self);
                self.y = v;
                self.nz(v);
            }
            STA => self.wr(addr, self.a, AccessKind::Write),
            STX => self.wr(addr, self.x, AccessKind::Write),
            STY => self.wr(addr, self.y, AccessKind::Write),
            ADC => {
                if self.d {
                    return Some(Stop::Decimal(self.cur_pc));
                }
                let v = imm_or_mem(self);
                self.adc(v);
            }
            SBC => {
                if self.d {
                    return Some(Stop::Decimal(self.cur_pc));
                }
                let v = imm_or_mem(self);
                self.adc(!v);
            }
            AND => {
                let v = imm_or_mem(self);
                self.a &= v;
                self.nz(self.a);
            }
            ORA => {
                let v = imm_or_mem(self);
                self.a |= v;
                self.nz(self.a);
            }
            EOR => {
                let v = imm_or_mem(self);
                self.a ^= v;
                self.nz(self.a);
            }
            CMP => {
                let v = imm_or_mem(self);
                self.cmp(self.a, v);
            }
            CPX => {
                let v = imm_or_mem(self);
                self.cmp(self.x, v);
            }
            CPY => {
                let v = imm_or_mem(self);
                self.cmp(self.y, v);
            }
            BIT => {
                let v = imm_or_mem(self);
                self.z = self.a & v == 0;
                self.n = v & 0x80 != 0;
                self.v = v & 0x40 != 0;
            }
            ASL | LSR | ROL | ROR | INC | DEC => {
                let acc = dec.mode == Mode::Imp;
                let old = if acc {
                    self.a
                } else {
                    if !self.ports.is_empty() && self.in_port(addr) {
                        self.faults.push(Fault::RmwOnPort { addr, pc: self.cur_pc });
                    }
                    self.rd(addr, AccessKind::RmwRead)
                };
                let new = match dec.op {
                    ASL => {
                        let r = old << 1;
                        self.c = old & 0x80 != 0;
                        r
                    }
                    LSR => {
                        let r = old >> 1;
                        self.c = old & 1 != 0;
                        r
                    }
                    ROL => {
                        let r = old << 1 | self.c as u8;
                        self.c = old & 0x80 != 0;
                        r
                    }
                    ROR => {
                        let r = old >> 1 | (self.c as u8) << 7;
                        self.c = old & 1 != 0;
                        r
                    }
                    INC => old.wrapping_add(1),
                    DEC => old.wrapping_sub(1),
                    _ => unreachable!(),
                };
                self.nz(new);
                if acc {
                    self.a = new;
                } else {
                    self.wr(addr, new, AccessKind::RmwWrite);
                }
            }
            INX => {
                self.x = self.x.wrapping_add(1);
                self.nz(self.x);
            }
            INY => {
                self.y = self.y.wrapping_add(1);
                self.nz(self.y);
            }
            DEX => {
                self.x = self.x.wrapping_sub(1);
                self.nz(self.x);
            }
            DEY => {
                self.y = self.y.wrapping_sub(1);
                self.nz(self.y);
            }
            TAX => {
                self.x = self.a;
                self.nz(self.x);
            }
            TAY => {
                self.y = self.a;
                self.nz(self.y);
            }
            TXA => {
                self.a = self.x;
                self.nz(self.a);
            }
            TYA => {
                self.a = self.y;
                self.nz(self.a);
            }
            TSX => {
                self.x = self.sp;
                self.nz(self.x);
            }
            TXS => self.sp = self.x,
            CLC => self.c = false,
            SEC => self.c = true,
            CLD => self.d = false,
            SED => self.d = true,
            CLI => self.i = false,
            SEI => self.i = true,
            CLV => self.v = false,
            NOP => {}
            PHA => self.push(self.a),
            PHP => {
                let p = self.flags() | 0x10;
                self.push(p)
            }
            PLA => {
                self.a = self.pop();
                self.nz(self.a);
            }
            PLP => {
                let p = self.pop();
                self.set_flags(p);
            }
            JMP => self.pc = addr,
            JSR => {
                let ret = self.pc.wrapping_sub(1);
                if self.sp < 8 {
                    return Some(Stop::StackOverflow(self.cur_pc));
                }
                self.push((ret >> 8) as u8);
                self.push(ret as u8);
                self.pc = addr;
            }
            RTS => {
                let lo = self.pop() as u16;
                let hi = self.pop() as u16;
                self.pc = (lo | hi << 8).wrapping_add(1);
            }
            RTI => {
                let p = self.pop();
                self.set_flags(p);
                let lo = self.pop() as u16;
                let hi = self.pop() as u16;
                self.pc = lo | hi << 8;
            }
            BRK => {
                self.pc = self.cur_pc;
                return Some(Stop::IllegalOpcode(0, self.cur_pc));
            }
            BCC | BCS | BEQ | BNE | BMI | BPL | BVC | BVS => {
                let take = match dec.op {
                    BCC => !self.c,
                    BCS => self.c,
                    BEQ => self.z,
                    BNE => !self.z,
                    BMI => self.n,
                    BPL => !self.n,
                    BVC => !self.v,
                    BVS => self.v,
                    _ => unreachable!(),
                };
                if take {
                    cyc += 1;
                    if (self.pc & 0xff00) != (addr & 0xff00) {
                        cyc += 1;
                    }
                    self.pc = addr;
                }
            }
        }
        let _ = dec.mn;
        self.cycles += cyc;
        None
    }

    pub fn run(&mut self, max_cycles: u64) -> Stop {
        let limit = self.cycles + max_cycles;
        loop {
            if let Some(s) = self.step() {
                return s;
            }
            if self.cycles >= limit {
                return Stop::CycleLimit;
            }
        }
    }
}

#[cfg(test)]
mod tests {
    use super::*;

    fn ref_adc(a: u8, m: u8, c: bool) -> (u8, bool, bool, bool, bool) {
        let s = a as i32 + m as i32 + c as i32;
        let r = (s & 0xff) as u8;
        let signed = (a as i8) as i32 + (m as i8) as i32 + c as i32;
        (r, s > 255, !(-128..=127).contains(&signed), r & 0x80 != 0, r == 0)
    }

    #[test]
    fn adc_sbc_cmp_exhaustive() {
        let mut cpu = Cpu::new();
        for a in 0..=255u8 {
            for m in 0..=255u8 {
                for c in [false, true] {
                    cpu.a = a;
                    cpu.c = c;
                    cpu.adc(m);
                    let e = ref_adc(a, m, c);
                    assert_eq!((cpu.a, cpu.c, cpu.v, cpu.n, cpu.z), e);
                    // SBC: a - m - (1-c)
                    cpu.a = a;
                    cpu.c = c;
                    cpu.adc(!m);
                    let d = a as i32 - m as i32 - (!c) as i32;
                    assert_eq!(cpu.a, (d & 0xff) as u8);
                    assert_eq!(cpu.c, d >= 0);
                    let sd = (a as i8) as i32 - (m as i8) as i32 - (!c) as i32;
                    assert_eq!(cpu.v, !(-128..=127).contains(&sd));
                }
                cpu.cmp(a, m);
                assert_eq!(cpu.c, a >= m);
                assert_eq!(cpu.z, a == m);
                assert_eq!(cpu.n, a.wrapping_sub(m) & 0x80 != 0);
            }
        }
    }

    #[test]
    fn small_program() {
        // LDX #3; loop: DEX; BNE loop; STX $10; HALT
        let prog = [0xA2, 3, 0xCA, 0xD0, 0xFD, 0x86, 0x10, HALT];
        let mut cpu = Cpu::new();
        cpu.mem[0xC000..0xC000 + prog.len()].copy_from_slice(&prog);
        cpu.mem[0x10] = 9;
        cpu.pc = 0xC000;
        assert_eq!(cpu.run(1000), Stop::Halt);
        assert_eq!(cpu.mem[0x10], 0);
        // 2 + 3*(2) + 2*3 + 2 + 3 = 2 + 6 + 3+3+2 + 3
        assert_eq!(cpu.cycles, 2 + (2 + 3) * 2 + (2 + 2) + 3);
    }
}
