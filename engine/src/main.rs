use std::io::Write;
use vengine::*;

fn probe(args: &[String], out: &mut dyn Write) -> i32 {
    // vcheck probe file.c [-O0] [--signed] [--scheme 3E] [--run] [x=..] [var=..]
    let src = std::fs::read_to_string(&args[0]).unwrap();
    let mut opts = cc::Opts::default();
    let mut run = false;
    let mut init = exec::Init::default();
    let mut i = 1;
    while i < args.len() {
        let a = &args[i];
        if a.starts_with("-O") { opts.opt_level = a[2..].parse().unwrap(); }
        else if a == "--signed" { opts.signed_chars = true; }
        else if a == "--insert" { opts.insert_code = true; }
        else if a == "--scheme" { i += 1; opts.scheme = args[i].clone(); }
        else if a.starts_with("-D") { opts.defines.push(a[2..].to_string()); }
        else if a == "--run" { run = true; }
        else if let Some((k, v)) = a.split_once('=') {
            let val: i64 = if let Some(h) = v.strip_prefix("0x") { i64::from_str_radix(h, 16).unwrap() } else { v.parse().unwrap() };
            match k { "X" => init.x = val as u8, "Y" => init.y = val as u8,
                _ => { init.vars.insert(k.to_string(), exec::InitVal::Bytes(vec![(val & 0xff) as u8, ((val >> 8) & 0xff) as u8])); } }
        }
        i += 1;
    }
    match cc::compile_str(&src, &opts) {
        cc::Outcome::Ok(cap) => {
            for v in &cap.vars { writeln!(out, "; VAR {} {}", v.name, v.debug).ok(); }
            writeln!(out, "; TREE {:?}\n; INUSE {:?}", cap.call_tree, cap.in_use).ok();
            for f in &cap.funcs {
                writeln!(out, "{} ; {} size={} removed={} fixes={}", f.name, f.debug, f.size_bytes, f.opt_removed, f.branch_fixes).ok();
                write!(out, "{}", f.asm).ok();
            }
            if run {
                match exec::link(&cap, &opts.scheme, 0, exec::Which::InUse) {
                    Ok(img) => {
                        let mut m = exec::Machine::new();
                        let r = m.run(&img, &init, 1_000_000);
                        writeln!(out, "STOP {:?} cycles={} X={} Y={} A={}", r.stop, r.cycles, r.x, r.y, r.a).ok();
                        for (k, v) in &r.vars { writeln!(out, "  {} = {:?}", k, v).ok(); }
                        if !r.faults.is_empty() { writeln!(out, "FAULTS {:?}", r.faults).ok(); }
                    }
                    Err(e) => { writeln!(out, "LINK ERROR {:?}", e).ok(); }
                }
            }
        }
        cc::Outcome::Err(e) => { writeln!(out, "ERR {:?}", e).ok(); }
        cc::Outcome::Panic(p) => { writeln!(out, "PANIC {:?}", p).ok(); }
    }
    0
}

fn rejects(out: &mut dyn Write, n: usize, seed: u64) -> i32 {
    use proptest::test_runner::{Config, RngSeed, TestRunner};
    let mut runner = TestRunner::new(Config { rng_seed: RngSeed::Fixed(seed), failure_persistence: None, ..Config::default() });
    let cfg = checks::c01::cfg();
    let mut hist: std::collections::BTreeMap<String, (usize, Vec<String>)> = Default::default();
    let mut acc = 0;
    for _ in 0..n {
        let case = { let mut g = pbt::G::new(runner.rng()); sem::gen_case(&mut g, &cfg, 1, &[1], false) };
        let src = case.source();
        match cc::compile_str(&src, &case.opts()) {
            cc::Outcome::Ok(_) => acc += 1,
            cc::Outcome::Err(e) => {
                let line = e.loc().map(|l| l.1 as usize).unwrap_or(0);
                let text = src.lines().nth(line.saturating_sub(1)).unwrap_or("").trim().to_string();
                let ent = hist.entry(e.msg()).or_default();
                ent.0 += 1;
                if ent.1.len() < 12 { ent.1.push(text); }
            }
            cc::Outcome::Panic(p) => { let ent = hist.entry(format!("PANIC {}", p.sig)).or_default(); ent.0 += 1; if ent.1.len() < 3 { ent.1.push(src.clone()); } }
        }
    }
    writeln!(out, "accepted {}/{}", acc, n).ok();
    let mut v: Vec<_> = hist.into_iter().collect();
    v.sort_by_key(|x| std::cmp::Reverse(x.1 .0));
    for (k, (c, ex)) in v { writeln!(out, "--- {} x {}", c, k).ok(); for e in ex { writeln!(out, "      {}", e).ok(); } }
    0
}

fn refc_debug(out: &mut dyn Write, path: &str) -> i32 {
    let v = report::read_json(std::path::Path::new(path)).unwrap();
    let case: sem::SemCase = serde_json::from_value(v["case"].clone()).unwrap();
    let src = case.source();
    writeln!(out, "{}", src).ok();
    if let sem::Built::Ok(_, img) = sem::build(&src, &case.opts(), case.layout_shuffle) {
        for init in &case.inits {
            for rd in refc::READINGS.iter() {
                let mut it = refc::Interp::new(&case.prog, &img.layout, *rd, init, 20000).unwrap();
                it.set_signed_char_default(case.signed_chars);
                match it.run_main() {
                    Ok(fs) => { writeln!(out, "{:?}\n   -> x={} y={} trace={:x} {:?}", rd, fs.x, fs.y, fs.trace, fs.globals).ok(); }
                    Err(e) => { writeln!(out, "{:?}\n   -> ABORT {:?}", rd, e).ok(); }
                }
            }
            let r = sem::run_image(&img, init, 100000);
            writeln!(out, "EMU {:?} x={} y={} {:?}", r.stop, r.x, r.y, sem::observable(&case.prog, &r)).ok();
        }
    }
    0
}

fn main() {
    let argv: Vec<String> = std::env::args().collect();
    cc::install_panic_hook();
    if argv.get(1).map(|s| s.as_str()) == Some("worker-c16") {
        std::process::exit(checks::c16::worker_main());
    }
    if argv.get(1).map(|s| s.as_str()) == Some("worker-c05") {
        let opt = argv.get(3).and_then(|s| s.parse().ok()).unwrap_or(1u8);
        std::process::exit(checks::c05::worker_main(&argv[2], opt));
    }
    let mut out = if std::env::var("C03_DEBUG").is_ok() { std::fs::File::create("/dev/stdout").unwrap() } else { cc::silence_stdio() };
    let seed: u64 = std::env::var("VERIF_SEED").ok().and_then(|s| s.trim().parse::<i64>().ok()).map(|v| v as u64).unwrap_or(20260925);
    let mut tier = match std::env::var("VERIF_TIER").ok().as_deref() { Some("thorough") => report::Tier::Thorough, _ => report::Tier::Quick };
    let mut scale = std::env::var("VERIF_SCALE").ok().and_then(|s| s.parse().ok()).unwrap_or(100u32);
    let mut i = 2;
    let mut pos = vec![];
    while i < argv.len() {
        match argv[i].as_str() {
            "--tier" => { i += 1; if argv.get(i).map(|s| s.as_str()) == Some("thorough") { tier = report::Tier::Thorough } else { tier = report::Tier::Quick } }
            "quick" => tier = report::Tier::Quick,
            "thorough" => tier = report::Tier::Thorough,
            "--scale" => { i += 1; scale = argv[i].parse().unwrap_or(100); }
            other => pos.push(other.to_string()),
        }
        i += 1;
    }
    let code = match argv.get(1).map(|s| s.as_str()) {
        Some("probe") => probe(&argv[2..], &mut out),
        Some("rejects") => rejects(&mut out, pos.get(0).and_then(|s| s.parse().ok()).unwrap_or(500), seed),
        Some("covered") => {
            // which active exclusion rule (if any) covers the saved case?
            let mut ex = gen::Excl::default();
            for f in report::load_findings() { if f.status == "open" { if let Some(e) = f.exclusion { for n in e.split(',') { ex.active.insert(n.trim().to_string()); } } } }
            for p in &pos {
                let v = report::read_json(std::path::Path::new(p)).unwrap();
                let case: sem::SemCase = serde_json::from_value(v["case"].clone()).unwrap();
                writeln!(out, "{} -> {:?}", p, excl::find_excluded(&case.prog, &ex)).ok();
            }
            0
        }
        Some("c15readings") => {
            // for a saved C15 case: the verdict of the reference readings for both spellings, per input vector
            let v = report::read_json(std::path::Path::new(&pos[0])).unwrap();
            let case: checks::c15::Case = serde_json::from_value(v["case"].clone()).unwrap();
            let p = &case.sem.prog;
            let (n, _) = checks::c15::rewrite(p, case.rw, None);
            let q = checks::c15::rewrite(p, case.rw, Some(case.site % n.max(1))).1.unwrap();
            let qcase = sem::SemCase { prog: q.clone(), ..case.sem.clone() };
            let a = sem::build_side(&case.sem.source(), &case.sem.opts(), case.sem.layout_shuffle);
            let b = sem::build_side(&qcase.source(), &case.sem.opts(), case.sem.layout_shuffle);
            if let (sem::Side::Ok(_, ia), sem::Side::Ok(_, ib)) = (a, b) {
                for (i, init) in case.sem.inits.iter().enumerate() {
                    let va = refc::run_all_ex(p, &ia.layout, init, sem::REFC_STEPS, &refc::READINGS, case.sem.signed_chars, false);
                    let vb = refc::run_all_ex(&q, &ib.layout, init, sem::REFC_STEPS, &refc::READINGS, case.sem.signed_chars, false);
                    let short = |v: &refc::Verdict| match v { refc::Verdict::Agreed(_) => "Agreed".to_string(), o => format!("{:?}", o).chars().take(80).collect() };
                    writeln!(out, "vector {}: original {} | rewritten {}", i, short(&va), short(&vb)).ok();
                }
            }
            0
        }
        Some("c03text") => {
            let v = report::read_json(std::path::Path::new(&pos[0])).unwrap();
            let sk: checks::c03::Skeleton = serde_json::from_value(v["skeleton"].clone()).unwrap();
            let mut code = checks::c03::build(&sk);
            let n = code.check_branches();
            let mut text: Vec<u8> = vec![];
            code.write(&mut text, false).ok();
            writeln!(out, "fixes={}", n).ok();
            let mut run = 0;
            for l in String::from_utf8_lossy(&text).lines() {
                let t = l.trim();
                let interesting = !l.starts_with('\t') || t.starts_with('B') || t.starts_with("JMP") || t.starts_with("LDA") || t.starts_with("CMP");
                if interesting { if run > 0 { writeln!(out, "   <{} lines>", run).ok(); run = 0; } writeln!(out, "{}", l).ok(); } else { run += 1; }
            }
            0
        }
        Some("c09rej") => {
            use proptest::test_runner::{Config, RngSeed, TestRunner};
            let mut runner = TestRunner::new(Config { rng_seed: RngSeed::Fixed(seed), failure_persistence: None, ..Config::default() });
            let mut shown: std::collections::BTreeMap<String, usize> = Default::default();
            for _ in 0..400 {
                let case = { let mut g = pbt::G::new(runner.rng()); checks::c09::gen_case(&mut g, &gen::Excl::default()) };
                let src = checks::c09::source(&case);
                if let cc::Outcome::Err(e) = cc::compile_str(&src, &cc::Opts::o(1)) {
                    let k = e.msg().chars().take(40).collect::<String>();
                    let n = shown.entry(k.clone()).or_insert(0);
                    *n += 1;
                    if *n <= 3 { let line = e.loc().map(|l| l.1 as usize).unwrap_or(0); writeln!(out, "--- {} (line {})\n{}", k, line, src.lines().nth(line.saturating_sub(1)).unwrap_or("")).ok(); }
                }
            }
            0
        }
        Some("whyexcl") => {
            use proptest::test_runner::{Config, RngSeed, TestRunner};
            let mut runner = TestRunner::new(Config { rng_seed: RngSeed::Fixed(seed), failure_persistence: None, ..Config::default() });
            let mut ex = gen::Excl::default();
            ex.active.insert(pos.get(0).cloned().unwrap_or("self_assign".into()));
            let cfg = checks::c01::cfg();
            let mut shown = 0;
            for _ in 0..400 {
                let (prog, _) = { let mut g = pbt::G::new(runner.rng()); gen::ProgGen::new(&mut g, cfg.clone()).program() };
                if excl::find_excluded(&prog, &ex).is_some() {
                    // find the smallest function statement that triggers
                    for f in &prog.funcs { for st in &f.body {
                        let p2 = ast::Program { globals: prog.globals.clone(), funcs: vec![ast::Func { body: vec![st.clone()], ..f.clone() }] };
                        if excl::find_excluded(&p2, &ex).is_some() && shown < 25 {
                            let mut pr = ast::Printer::new(ast::Parens::Minimal); pr.stmt(st);
                            let t = pr.out; if t.len() < 200 { writeln!(out, "{}", t.trim()).ok(); shown += 1; }
                        }
                    } }
                }
            }
            0
        }
        Some("refc") => refc_debug(&mut out, &pos.get(0).cloned().unwrap_or_default()),
        Some("replay") => {
            let path = pos.get(0).cloned().unwrap_or_default();
            match report::read_json(std::path::Path::new(&path)) {
                Some(v) => {
                    let prop = v["property"].as_str().unwrap_or("").to_string();
                    let mut ctx = report::RunCtx { property: prop, tier, seed, out, start: std::time::Instant::now(), shards: 1, scale_pct: scale };
                    checks::replay(&mut ctx, &v)
                }
                None => { writeln!(out, "cannot read {}", path).ok(); 2 }
            }
        }
        Some(id) if id.starts_with('C') => {
            let shards = std::env::var("VERIF_SHARDS").ok().and_then(|s| s.parse().ok()).unwrap_or(16usize);
            let mut ctx = report::RunCtx { property: id.to_string(), tier, seed, out, start: std::time::Instant::now(), shards, scale_pct: scale };
            // a panic of the harness itself is trouble of the machinery, never a verdict
            match std::panic::catch_unwind(std::panic::AssertUnwindSafe(|| checks::run(&mut ctx))) {
                Ok(code) => code,
                Err(_) => {
                    ctx.say(&format!("INCONCLUSIVE property={} the harness panicked (a bug of the check, not a verdict on the code)", id));
                    2
                }
            }
        }
        _ => { writeln!(out, "usage: vcheck <ID> [quick|thorough] | replay <file> | probe <file.c> ...").ok(); 2 }
    };
    std::process::exit(code);
}
