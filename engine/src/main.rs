use std::io::Write;
use vengine::*;

fn probe(args: &[String], out: &mut dyn Write) -> i32 {
    // vcheck probe file.c [-O0] [--signed] [--scheme 3E] [--run] [x=..] [var=..]
    let src = std::fs::read_to_string(&args[0]).unwrap();
    let mut opts = cc::Opts::default();
    let mut run = false;
    let mut init = exec::Init::default();
    let mut i = 1;
    while i < args.len() {
        let a = &args[i];
        if a.starts_with("-O") { opts.opt_level = a[2..].parse().unwrap(); }
        else if a == "--signed" { opts.signed_chars = true; }
        else if a == "--insert" { opts.insert_code = true; }
        else if a == "--scheme" { i += 1; opts.scheme = args[i].clone(); }
        else if a.starts_with("-D") { opts.defines.push(a[2..].to_string()); }
        else if a == "--run" { run = true; }
        else if let Some((k, v)) = a.split_once('=') {
            let val: i64 = if let Some(h) = v.strip_prefix("0x") { i64::from_str_radix(h, 16).unwrap() } else { v.parse().unwrap() };
            match k { "X" => init.x = val as u8, "Y" => init.y = val as u8,
                _ => { init.vars.insert(k.to_string(), exec::InitVal::Bytes(vec![(val & 0xff) as u8, ((val >> 8) & 0xff) as u8])); } }
        }
        i += 1;
    }
    match cc::compile_str(&src, &opts) {
        cc::Outcome::Ok(cap) => {
            for v in &cap.vars { writeln!(out, "; VAR {} {}", v.name, v.debug).ok(); }
            writeln!(out, "; TREE {:?}\n; INUSE {:?}", cap.call_tree, cap.in_use).ok();
            for f in &cap.funcs {
                writeln!(out, "{} ; {} size={} removed={} fixes={}", f.name, f.debug, f.size_bytes, f.opt_removed, f.branch_fixes).ok();
                write!(out, "{}", f.asm).ok();
            }
            if run {
                match exec::link(&cap, &opts.scheme, 0, exec::Which::InUse) {
                    Ok(img) => {
                        let mut m = exec::Machine::new();
                        let r = m.run(&img, &init, 1_000_000);
                        writeln!(out, "STOP {:?} cycles={} X={} Y={} A={}", r.stop, r.cycles, r.x, r.y, r.a).ok();
                        for (k, v) in &r.vars { writeln!(out, "  {} = {:?}", k, v).ok(); }
                        if !r.faults.is_empty() { writeln!(out, "FAULTS {:?}", r.faults).ok(); }
                    }
                    Err(e) => { writeln!(out, "LINK ERROR {:?}", e).ok(); }
                }
            }
        }
        cc::Outcome::Err(e) => { writeln!(out, "ERR {:?}", e).ok(); }
        cc::Outcome::Panic(p) => { writeln!(out, "PANIC {:?}", p).ok(); }
    }
    0
}

fn main() {
    let argv: Vec<String> = std::env::args().collect();
    cc::install_panic_hook();
    let mut out = cc::silence_stdio();
    let code = match argv.get(1).map(|s| s.as_str()) {
        Some("probe") => probe(&argv[2..], &mut out),
        _ => { writeln!(out, "usage: vcheck probe <file.c> ...").ok(); 2 }
    };
    std::process::exit(code);
}
