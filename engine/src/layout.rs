//! Address assignment for every variable of a compiled program, following the contract of
//! the embedding linkers (Zeropage class < $100, everything else >= $100; cartridge RAM with
//! split read/write ports; ROM tables initialised from their definitions).
use crate::cc::{Capture, Def, Val, VarInfo};
use crate::emu6502::Port;
use cc6502::compile::{VariableMemory, VariableType};
use std::collections::HashMap;

#[derive(Debug, Clone, Copy, PartialEq, Eq)]
pub enum MemClass {
    /// target byte of a constant pointer (`char * const R = 0x..`), a "hardware register"
    Reg,
    Zp,
    Abs,
    Split,
    Rom,
    Equ,
}

#[derive(Debug, Clone)]
pub struct Object {
    pub name: String,
    pub addr: u16,
    /// address used for reading (== addr except for split-port memory)
    pub read_addr: u16,
    /// address used for writing
    pub write_addr: u16,
    pub bytes: u16,
    pub class: MemClass,
    pub var_type: VariableType,
    pub count: usize,
    pub rom_init: Option<Vec<u8>>,
}

#[derive(Debug, Clone, Default)]
pub struct Layout {
    pub symbols: HashMap<String, i64>,
    pub objects: Vec<Object>,
    pub ports: Vec<Port>,
    pub zp_used: u16,
}

pub const CCTMP: u16 = 0x0F;
pub const DUMMY: u16 = 0x2D;
pub const ZP_START: u16 = 0x10;
pub const ABS_START: u16 = 0x0200;
pub const SPLIT_BASE: u16 = 0x1000;
pub const ROM_START: u16 = 0x8000;
pub const CODE_START: u16 = 0xC000;

/// address areas reserved for the targets of constant pointers
pub const REG_ZP: (u16, u16) = (0xE0, 0xFF);
pub const REG_ABS: (u16, u16) = (0x0F00, 0x0FFF);
pub fn is_reg_addr(a: u16) -> bool {
    (a >= REG_ZP.0 && a <= REG_ZP.1) || (a >= REG_ABS.0 && a <= REG_ABS.1)
}

#[derive(Debug, Clone, PartialEq)]
pub enum LayoutError {
    ZeroPageFull,
    AbsFull,
    SplitFull,
    RomFull,
    Unsupported(String),
}

pub fn storage_bytes(v: &VarInfo) -> u16 {
    if v.size > 1 {
        let s = match v.var_type {
            VariableType::CharPtr => 1,
            VariableType::CharPtrPtr | VariableType::ShortPtr => 2,
            _ => 1,
        };
        (v.size * s) as u16
    } else {
        match v.var_type {
            VariableType::Char => 1,
            _ => 2,
        }
    }
}

/// `scheme`: the bankswitching scheme string given to the generator ("4K", "3E", "3EP").
/// `zp_order_rot`: rotates the order in which zero-page variables are placed (layout variety).
pub fn build(cap: &Capture, scheme: &str, shuffle: u32) -> Result<Layout, LayoutError> {
    let mut l = Layout::default();
    l.symbols.insert("cctmp".into(), CCTMP as i64);
    let mut zp = ZP_START;
    let mut abs = ABS_START + (shuffle % 7) as u16 * 37; // vary low bytes of absolute addresses
    let mut rom = ROM_START + (shuffle % 5) as u16 * 51;
    // split-port window
    let (split_read_off, split_write_off, split_len): (u16, u16, u16) = match scheme {
        "3E" => (0, 0x400, 0x400),
        "3EP" => (0, 0x200, 0x200),
        _ => (0x80, 0, 0x80), // superchip
    };
    let mut split = 0u16;
    let mut any_split = false;
    let zp_skip = |a: u16, n: u16| -> u16 {
        // keep DUMMY ($2D) free
        if a <= DUMMY && a + n > DUMMY {
            DUMMY + 1
        } else {
            a
        }
    };
    // deferred symbolic EQUs (LowPtr/HiPtr)
    let mut deferred: Vec<(String, Val)> = vec![];
    for v in &cap.vars {
        if v.name == "DUMMY" {
            l.symbols.insert("DUMMY".into(), DUMMY as i64);
            continue;
        }
        if v.memory == VariableMemory::Dummy {
            continue; // function names
        }
        // constants with a value are EQUs
        if v.var_const {
            if let Def::Value(val) = &v.def {
                match val {
                    Val::Int(i) => {
                        l.symbols.insert(v.name.clone(), *i as i64);
                        if v.var_type == VariableType::CharPtr && *i >= 0 && is_reg_addr(*i as u16) {
                            l.objects.push(Object {
                                name: v.name.clone(),
                                addr: *i as u16,
                                read_addr: *i as u16,
                                write_addr: *i as u16,
                                bytes: 1,
                                class: MemClass::Reg,
                                var_type: VariableType::Char,
                                count: 1,
                                rom_init: None,
                            });
                        }
                    }
                    other => deferred.push((v.name.clone(), other.clone())),
                }
                continue;
            }
        }
        let n = storage_bytes(v);
        match (&v.def, v.memory) {
            (Def::Array(_), VariableMemory::ROM(_)) | (Def::ArrayOfPointers(_), VariableMemory::ROM(_)) => {
                let count = match &v.def {
                    Def::Array(a) => a.len(),
                    Def::ArrayOfPointers(a) => a.len(),
                    _ => 0,
                };
                let wide = matches!(v.var_type, VariableType::ShortPtr | VariableType::CharPtrPtr);
                let bytes = (count * if wide { 2 } else { 1 }) as u16;
                if v.alignment > 1 {
                    let al = v.alignment as u16;
                    rom = (rom + al - 1) / al * al;
                }
                if rom as u32 + bytes as u32 > CODE_START as u32 {
                    return Err(LayoutError::RomFull);
                }
                l.symbols.insert(v.name.clone(), rom as i64);
                l.objects.push(Object {
                    name: v.name.clone(),
                    addr: rom,
                    read_addr: rom,
                    write_addr: rom,
                    bytes,
                    class: MemClass::Rom,
                    var_type: v.var_type,
                    count,
                    rom_init: None, // filled below once all symbols are known
                });
                rom += bytes;
            }
            (Def::None, VariableMemory::Zeropage) => {
                zp = zp_skip(zp, n);
                if zp as u32 + n as u32 > REG_ZP.0 as u32 {
                    return Err(LayoutError::ZeroPageFull);
                }
                l.symbols.insert(v.name.clone(), zp as i64);
                l.objects.push(Object {
                    name: v.name.clone(),
                    addr: zp,
                    read_addr: zp,
                    write_addr: zp,
                    bytes: n,
                    class: MemClass::Zp,
                    var_type: v.var_type,
                    count: v.size,
                    rom_init: None,
                });
                zp += n;
            }
            (Def::None, VariableMemory::Superchip) | (Def::None, VariableMemory::MemoryOnChip(_)) => {
                let is_super = v.memory == VariableMemory::Superchip;
                let splitting = is_super || scheme == "3E" || scheme == "3EP";
                if !splitting {
                    // MemoryOnChip under a scheme without split ports: plain absolute memory
                    if abs as u32 + n as u32 > 0x0F00 {
                        return Err(LayoutError::AbsFull);
                    }
                    l.symbols.insert(v.name.clone(), abs as i64);
                    l.objects.push(Object {
                        name: v.name.clone(),
                        addr: abs,
                        read_addr: abs,
                        write_addr: abs,
                        bytes: n,
                        class: MemClass::Abs,
                        var_type: v.var_type,
                        count: v.size,
                        rom_init: None,
                    });
                    abs += n;
                    continue;
                }
                let (ro, wo, len) = if is_super { (0x80, 0, 0x80) } else { (split_read_off, split_write_off, split_len) };
                if split + n > len {
                    return Err(LayoutError::SplitFull);
                }
                any_split = true;
                let base = SPLIT_BASE + split;
                l.symbols.insert(v.name.clone(), base as i64);
                l.objects.push(Object {
                    name: v.name.clone(),
                    addr: base,
                    read_addr: base + ro,
                    write_addr: base + wo,
                    bytes: n,
                    class: MemClass::Split,
                    var_type: v.var_type,
                    count: v.size,
                    rom_init: None,
                });
                split += n;
                // one window serves one kind in a program
                if l.ports.is_empty() {
                    l.ports.push(Port { read_base: SPLIT_BASE + ro, write_base: SPLIT_BASE + wo, len });
                }
            }
            (Def::None, _) => {
                if abs as u32 + n as u32 > 0x0F00 {
                    return Err(LayoutError::AbsFull);
                }
                l.symbols.insert(v.name.clone(), abs as i64);
                l.objects.push(Object {
                    name: v.name.clone(),
                    addr: abs,
                    read_addr: abs,
                    write_addr: abs,
                    bytes: n,
                    class: MemClass::Abs,
                    var_type: v.var_type,
                    count: v.size,
                    rom_init: None,
                });
                abs += n;
            }
            (d, m) => {
                return Err(LayoutError::Unsupported(format!("{}: def {:?} in memory {:?}", v.name, d, m)));
            }
        }
    }
    let _ = any_split;
    l.zp_used = zp;
    for (name, val) in deferred {
        let v = match &val {
            Val::Lo(s, o) => l.symbols.get(s).map(|b| (b + *o as i64) & 0xff),
            Val::Hi(s, o) => l.symbols.get(s).map(|b| ((b + *o as i64) >> 8) & 0xff),
            Val::Int(i) => Some(*i as i64),
        };
        match v {
            Some(x) => {
                l.symbols.insert(name, x);
            }
            None => return Err(LayoutError::Unsupported(format!("{}: EQU of unknown symbol {:?}", name, val))),
        }
    }
    // ROM images
    let val_byte = |l: &Layout, v: &Val, hi: bool| -> Option<u8> {
        Some(match v {
            Val::Int(i) => {
                if hi {
                    ((i >> 8) & 0xff) as u8
                } else {
                    (i & 0xff) as u8
                }
            }
            Val::Lo(s, o) => ((l.symbols.get(s)? + *o as i64) & 0xff) as u8,
            Val::Hi(s, o) => (((l.symbols.get(s)? + *o as i64) >> 8) & 0xff) as u8,
        })
    };
    for oi in 0..l.objects.len() {
        if l.objects[oi].class != MemClass::Rom {
            continue;
        }
        let v = cap.vars.iter().find(|v| v.name == l.objects[oi].name).unwrap();
        let mut img = vec![];
        match &v.def {
            Def::Array(a) => {
                for x in a {
                    match val_byte(&l, x, false) {
                        Some(b) => img.push(b),
                        None => return Err(LayoutError::Unsupported(format!("{}: unknown symbol in table", v.name))),
                    }
                }
                if v.var_type == VariableType::ShortPtr {
                    for x in a {
                        if let Val::Int(_) = x {
                            img.push(val_byte(&l, x, true).unwrap());
                        }
                    }
                }
            }
            Def::ArrayOfPointers(a) => {
                for (s, o) in a {
                    match l.symbols.get(s) {
                        Some(b) => img.push(((b + *o as i64) & 0xff) as u8),
                        None => return Err(LayoutError::Unsupported(format!("{}: unknown symbol {}", v.name, s))),
                    }
                }
                for (s, o) in a {
                    let b = l.symbols.get(s).unwrap();
                    img.push((((b + *o as i64) >> 8) & 0xff) as u8);
                }
            }
            _ => {}
        }
        l.objects[oi].bytes = img.len() as u16;
        l.objects[oi].rom_init = Some(img);
    }
    Ok(l)
}

impl Layout {
    pub fn object(&self, name: &str) -> Option<&Object> {
        self.objects.iter().find(|o| o.name == name)
    }
}
