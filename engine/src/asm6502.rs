//! Independent two-pass assembler for the dasm subset that cc6502 emits (plus the complete
//! official 6502 instruction set, so that a harmless change of instruction selection does not
//! turn into an "illegal instruction" alarm).
use std::collections::{BTreeMap, HashMap};

#[derive(Debug, Clone, Copy, PartialEq, Eq, Hash, PartialOrd, Ord)]
pub enum Mode {
    Imp, // implied or accumulator
    Imm,
    Zp,
    ZpX,
    ZpY,
    Abs,
    AbsX,
    AbsY,
    Ind,  // JMP (abs)
    IndX, // (zp,X)
    IndY, // (zp),Y
    Rel,
}

impl Mode {
    pub fn size(self) -> u32 {
        match self {
            Mode::Imp => 1,
            Mode::Imm | Mode::Zp | Mode::ZpX | Mode::ZpY | Mode::IndX | Mode::IndY | Mode::Rel => 2,
            Mode::Abs | Mode::AbsX | Mode::AbsY | Mode::Ind => 3,
        }
    }
}

/// (mnemonic, mode, opcode, base cycles, +1 on page cross)
pub const OPCODES: &[(&str, Mode, u8, u8, bool)] = &[
    ("ADC", Mode::Imm, 0x69, 2, false), ("ADC", Mode::Zp, 0x65, 3, false), ("ADC", Mode::ZpX, 0x75, 4, false),
    ("ADC", Mode::Abs, 0x6D, 4, false), ("ADC", Mode::AbsX, 0x7D, 4, true), ("ADC", Mode::AbsY, 0x79, 4, true),
    ("ADC", Mode::IndX, 0x61, 6, false), ("ADC", Mode::IndY, 0x71, 5, true),
    ("AND", Mode::Imm, 0x29, 2, false), ("AND", Mode::Zp, 0x25, 3, false), ("AND", Mode::ZpX, 0x35, 4, false),
    ("AND", Mode::Abs, 0x2D, 4, false), ("AND", Mode::AbsX, 0x3D, 4, true), ("AND", Mode::AbsY, 0x39, 4, true),
    ("AND", Mode::IndX, 0x21, 6, false), ("AND", Mode::IndY, 0x31, 5, true),
    ("ASL", Mode::Imp, 0x0A, 2, false), ("ASL", Mode::Zp, 0x06, 5, false), ("ASL", Mode::ZpX, 0x16, 6, false),
    ("ASL", Mode::Abs, 0x0E, 6, false), ("ASL", Mode::AbsX, 0x1E, 7, false),
    ("BCC", Mode::Rel, 0x90, 2, false), ("BCS", Mode::Rel, 0xB0, 2, false), ("BEQ", Mode::Rel, 0xF0, 2, false),
    ("BMI", Mode::Rel, 0x30, 2, false), ("BNE", Mode::Rel, 0xD0, 2, false), ("BPL", Mode::Rel, 0x10, 2, false),
    ("BVC", Mode::Rel, 0x50, 2, false), ("BVS", Mode::Rel, 0x70, 2, false),
    ("BIT", Mode::Zp, 0x24, 3, false), ("BIT", Mode::Abs, 0x2C, 4, false),
    ("BRK", Mode::Imp, 0x00, 7, false),
    ("CLC", Mode::Imp, 0x18, 2, false), ("CLD", Mode::Imp, 0xD8, 2, false), ("CLI", Mode::Imp, 0x58, 2, false),
    ("CLV", Mode::Imp, 0xB8, 2, false),
    ("CMP", Mode::Imm, 0xC9, 2, false), ("CMP", Mode::Zp, 0xC5, 3, false), ("CMP", Mode::ZpX, 0xD5, 4, false),
    ("CMP", Mode::Abs, 0xCD, 4, false), ("CMP", Mode::AbsX, 0xDD, 4, true), ("CMP", Mode::AbsY, 0xD9, 4, true),
    ("CMP", Mode::IndX, 0xC1, 6, false), ("CMP", Mode::IndY, 0xD1, 5, true),
    ("CPX", Mode::Imm, 0xE0, 2, false), ("CPX", Mode::Zp, 0xE4, 3, false), ("CPX", Mode::Abs, 0xEC, 4, false),
    ("CPY", Mode::Imm, 0xC0, 2, false), ("CPY", Mode::Zp, 0xC4, 3, false), ("CPY", Mode::Abs, 0xCC, 4, false),
    ("DEC", Mode::Zp, 0xC6, 5, false), ("DEC", Mode::ZpX, 0xD6, 6, false), ("DEC", Mode::Abs, 0xCE, 6, false),
    ("DEC", Mode::AbsX, 0xDE, 7, false),
    ("DEX", Mode::Imp, 0xCA, 2, false), ("DEY", Mode::Imp, 0x88, 2, false),
    ("EOR", Mode::Imm, 0x49, 2, false), ("EOR", Mode::Zp, 0x45, 3, false), ("EOR", Mode::ZpX, 0x55, 4, false),
    ("EOR", Mode::Abs, 0x4D, 4, false), ("EOR", Mode::AbsX, 0x5D, 4, true), ("EOR", Mode::AbsY, 0x59, 4, true),
    ("EOR", Mode::IndX, 0x41, 6, false), ("EOR", Mode::IndY, 0x51, 5, true),
    ("INC", Mode::Zp, 0xE6, 5, false), ("INC", Mode::ZpX, 0xF6, 6, false), ("INC", Mode::Abs, 0xEE, 6, false),
    ("INC", Mode::AbsX, 0xFE, 7, false),
    ("INX", Mode::Imp, 0xE8, 2, false), ("INY", Mode::Imp, 0xC8, 2, false),
    ("JMP", Mode::Abs, 0x4C, 3, false), ("JMP", Mode::Ind, 0x6C, 5, false),
    ("JSR", Mode::Abs, 0x20, 6, false),
    ("LDA", Mode::Imm, 0xA9, 2, false), ("LDA", Mode::Zp, 0xA5, 3, false), ("LDA", Mode::ZpX, 0xB5, 4, false),
    ("LDA", Mode::Abs, 0xAD, 4, false), ("LDA", Mode::AbsX, 0xBD, 4, true), ("LDA", Mode::AbsY, 0xB9, 4, true),
    ("LDA", Mode::IndX, 0xA1, 6, false), ("LDA", Mode::IndY, 0xB1, 5, true),
    ("LDX", Mode::Imm, 0xA2, 2, false), ("LDX", Mode::Zp, 0xA6, 3, false), ("LDX", Mode::ZpY, 0xB6, 4, false),
    ("LDX", Mode::Abs, 0xAE, 4, false), ("LDX", Mode::AbsY, 0xBE, 4, true),
    ("LDY", Mode::Imm, 0xA0, 2, false), ("LDY", Mode::Zp, 0xA4, 3, false), ("LDY", Mode::ZpX, 0xB4, 4, false),
    ("LDY", Mode::Abs, 0xAC, 4, false), ("LDY", Mode::AbsX, 0xBC, 4, true),
    ("LSR", Mode::Imp, 0x4A, 2, false), ("LSR", Mode::Zp, 0x46, 5, false), ("LSR", Mode::ZpX, 0x56, 6, false),
    ("LSR", Mode::Abs, 0x4E, 6, false), ("LSR", Mode::AbsX, 0x5E, 7, false),
    ("NOP", Mode::Imp, 0xEA, 2, false),
    ("ORA", Mode::Imm, 0x09, 2, false), ("ORA", Mode::Zp, 0x05, 3, false), ("ORA", Mode::ZpX, 0x15, 4, false),
    ("ORA", Mode::Abs, 0x0D, 4, false), ("ORA", Mode::AbsX, 0x1D, 4, true), ("ORA", Mode::AbsY, 0x19, 4, true),
    ("ORA", Mode::IndX, 0x01, 6, false), ("ORA", Mode::IndY, 0x11, 5, true),
    ("PHA", Mode::Imp, 0x48, 3, false), ("PHP", Mode::Imp, 0x08, 3, false), ("PLA", Mode::Imp, 0x68, 4, false),
    ("PLP", Mode::Imp, 0x28, 4, false),
    ("ROL", Mode::Imp, 0x2A, 2, false), ("ROL", Mode::Zp, 0x26, 5, false), ("ROL", Mode::ZpX, 0x36, 6, false),
    ("ROL", Mode::Abs, 0x2E, 6, false), ("ROL", Mode::AbsX, 0x3E, 7, false),
    ("ROR", Mode::Imp, 0x6A, 2, false), ("ROR", Mode::Zp, 0x66, 5, false), ("ROR", Mode::ZpX, 0x76, 6, false),
    ("ROR", Mode::Abs, 0x6E, 6, false), ("ROR", Mode::AbsX, 0x7E, 7, false),
    ("RTI", Mode::Imp, 0x40, 6, false), ("RTS", Mode::Imp, 0x60, 6, false),
    ("SBC", Mode::Imm, 0xE9, 2, false), ("SBC", Mode::Zp, 0xE5, 3, false), ("SBC", Mode::ZpX, 0xF5, 4, false),
    ("SBC", Mode::Abs, 0xED, 4, false), ("SBC", Mode::AbsX, 0xFD, 4, true), ("SBC", Mode::AbsY, 0xF9, 4, true),
    ("SBC", Mode::IndX, 0xE1, 6, false), ("SBC", Mode::IndY, 0xF1, 5, true),
    ("SEC", Mode::Imp, 0x38, 2, false), ("SED", Mode::Imp, 0xF8, 2, false), ("SEI", Mode::Imp, 0x78, 2, false),
    ("STA", Mode::Zp, 0x85, 3, false), ("STA", Mode::ZpX, 0x95, 4, false), ("STA", Mode::Abs, 0x8D, 4, false),
    ("STA", Mode::AbsX, 0x9D, 5, false), ("STA", Mode::AbsY, 0x99, 5, false), ("STA", Mode::IndX, 0x81, 6, false),
    ("STA", Mode::IndY, 0x91, 6, false),
    ("STX", Mode::Zp, 0x86, 3, false), ("STX", Mode::ZpY, 0x96, 4, false), ("STX", Mode::Abs, 0x8E, 4, false),
    ("STY", Mode::Zp, 0x84, 3, false), ("STY", Mode::ZpX, 0x94, 4, false), ("STY", Mode::Abs, 0x8C, 4, false),
    ("TAX", Mode::Imp, 0xAA, 2, false), ("TAY", Mode::Imp, 0xA8, 2, false), ("TSX", Mode::Imp, 0xBA, 2, false),
    ("TXA", Mode::Imp, 0x8A, 2, false), ("TXS", Mode::Imp, 0x9A, 2, false), ("TYA", Mode::Imp, 0x98, 2, false),
];

pub fn is_mnemonic(m: &str) -> bool {
    OPCODES.iter().any(|o| o.0 == m)
}

pub fn lookup(m: &str, mode: Mode) -> Option<(u8, u8, bool)> {
    OPCODES.iter().find(|o| o.0 == m && o.1 == mode).map(|o| (o.2, o.3, o.4))
}

pub fn is_rmw(m: &str) -> bool {
    matches!(m, "ASL" | "LSR" | "ROL" | "ROR" | "INC" | "DEC")
}
pub fn is_store(m: &str) -> bool {
    matches!(m, "STA" | "STX" | "STY")
}

#[derive(Debug, Clone, PartialEq)]
pub enum AsmErrorKind {
    UnknownMnemonic(String),
    IllegalMode(String, String),
    UndefinedSymbol(String),
    DuplicateLabel(String),
    BranchOutOfRange(String, i32),
    Syntax(String),
    ValueRange(String, i64),
    /// the program does not fit the emulator's code area (harness limit, not a defect)
    ImageTooLarge,
}

#[derive(Debug, Clone, PartialEq)]
pub struct AsmError {
    pub unit: String,
    pub line_no: usize,
    pub text: String,
    pub kind: AsmErrorKind,
}

impl std::fmt::Display for AsmError {
    fn fmt(&self, f: &mut std::fmt::Formatter) -> std::fmt::Result {
        write!(f, "{}:{}: `{}`: {:?}", self.unit, self.line_no, self.text.trim(), self.kind)
    }
}

#[derive(Debug, Clone, PartialEq)]
pub enum Syntactic {
    None,
    Imm(String),
    IndY(String),
    IndX(String),
    Ind(String),
    X(String),
    Y(String),
    Plain(String),
}

#[derive(Debug, Clone)]
pub struct Instr {
    pub unit: usize,
    pub line_no: usize,
    pub text: String,
    pub mnemonic: String,
    pub lowercase: bool,
    pub syn: Syntactic,
    pub mode: Mode,
    pub addr: u16,
    pub opcode: u8,
    pub cycles: u8,
    pub page_cross: bool,
    pub value: i64,
    /// symbols referenced by the operand
    pub symbols: Vec<String>,
    /// cycles annotation found in a trailing comment ("; 3" or "; 2/3")
    pub annot: Option<(u32, Option<u32>)>,
}

#[derive(Debug, Clone)]
pub enum Item {
    Label(String, u16),
    Instr(Instr),
    Comment(String),
}

#[derive(Debug, Clone, Default)]
pub struct Unit {
    pub name: String,
    pub start: u16,
    pub end: u16,
    pub items: Vec<Item>,
}

#[derive(Debug, Clone, Default)]
pub struct Assembled {
    pub units: Vec<Unit>,
    pub bytes: BTreeMap<u16, u8>,
    pub globals: HashMap<String, i64>,
}

impl Assembled {
    pub fn instrs(&self) -> impl Iterator<Item = &Instr> {
        self.units.iter().flat_map(|u| u.items.iter()).filter_map(|i| if let Item::Instr(x) = i { Some(x) } else { None })
    }
    pub fn unit(&self, name: &str) -> Option<&Unit> {
        self.units.iter().find(|u| u.name == name)
    }
    pub fn instr_at(&self, addr: u16) -> Option<&Instr> {
        self.instrs().find(|i| i.addr == addr)
    }
}

// ---------------------------------------------------------------- expression evaluation

struct ExprParser<'a> {
    s: &'a [u8],
    i: usize,
    syms: &'a dyn Fn(&str) -> Option<i64>,
    undefined: Option<String>,
    used: Vec<String>,
}

impl<'a> ExprParser<'a> {
    fn ws(&mut self) {
        while self.i < self.s.len() && (self.s[self.i] == b' ' || self.s[self.i] == b'\t') {
            self.i += 1;
        }
    }
    fn peek(&mut self) -> Option<u8> {
        self.ws();
        self.s.get(self.i).copied()
    }
    fn expr(&mut self) -> Result<i64, String> {
        let mut v = self.term()?;
        loop {
            match self.peek() {
                Some(b'+') => {
                    self.i += 1;
                    v = v.wrapping_add(self.term()?);
                }
                Some(b'-') => {
                    self.i += 1;
                    v = v.wrapping_sub(self.term()?);
                }
                _ => return Ok(v),
            }
        }
    }
    fn term(&mut self) -> Result<i64, String> {
        let mut v = self.unary()?;
        loop {
            match self.peek() {
                Some(b'*') => {
                    self.i += 1;
                    v = v.wrapping_mul(self.unary()?);
                }
                Some(b'/') => {
                    self.i += 1;
                    let d = self.unary()?;
                    if d == 0 {
                        return Err("division by zero".into());
                    }
                    v /= d;
                }
                _ => return Ok(v),
            }
        }
    }
    fn unary(&mut self) -> Result<i64, String> {
        match self.peek() {
            Some(b'-') => {
                self.i += 1;
                Ok(-self.unary()?)
            }
            Some(b'+') => {
                self.i += 1;
                self.unary()
            }
            Some(b'<') => {
                self.i += 1;
                Ok(self.unary()? & 0xff)
            }
            Some(b'>') => {
                self.i += 1;
                Ok((self.unary()? >> 8) & 0xff)
            }
            Some(b'(') => {
                self.i += 1;
                let v = self.expr()?;
                if self.peek() != Some(b')') {
                    return Err("missing )".into());
                }
                self.i += 1;
                Ok(v)
            }
            Some(b'$') => {
                self.i += 1;
                let st = self.i;
                while self.i < self.s.len() && self.s[self.i].is_ascii_hexdigit() {
                    self.i += 1;
                }
                if st == self.i {
                    return Err("bad hex".into());
                }
                i64::from_str_radix(std::str::from_utf8(&self.s[st..self.i]).unwrap(), 16).map_err(|e| e.to_string())
            }
            Some(b'%') => {
                self.i += 1;
                let st = self.i;
                while self.i < self.s.len() && (self.s[self.i] == b'0' || self.s[self.i] == b'1') {
                    self.i += 1;
                }
                if st == self.i {
                    return Err("bad bin".into());
                }
                i64::from_str_radix(std::str::from_utf8(&self.s[st..self.i]).unwrap(), 2).map_err(|e| e.to_string())
            }
            Some(c) if c.is_ascii_digit() => {
                let st = self.i;
                while self.i < self.s.len() && self.s[self.i].is_ascii_digit() {
                    self.i += 1;
                }
                std::str::from_utf8(&self.s[st..self.i]).unwrap().parse::<i64>().map_err(|e| e.to_string())
            }
            Some(c) if c.is_ascii_alphabetic() || c == b'_' || c == b'.' => {
                let st = self.i;
                while self.i < self.s.len()
                    && (self.s[self.i].is_ascii_alphanumeric() || self.s[self.i] == b'_' || self.s[self.i] == b'.')
                {
                    self.i += 1;
                }
                let name = std::str::from_utf8(&self.s[st..self.i]).unwrap();
                self.used.push(name.to_string());
                match (self.syms)(name) {
                    Some(v) => Ok(v),
                    None => {
                        if self.undefined.is_none() {
                            self.undefined = Some(name.to_string());
                        }
                        Ok(0x4000) // placeholder: forward references are word-sized, like dasm
                    }
                }
            }
            Some(c) => Err(format!("unexpected character `{}`", c as char)),
            None => Err("unexpected end of operand".into()),
        }
    }
}

/// returns (value, first undefined symbol, used symbols)
pub fn eval_expr(s: &str, syms: &dyn Fn(&str) -> Option<i64>) -> Result<(i64, Option<String>, Vec<String>), String> {
    let mut p = ExprParser { s: s.as_bytes(), i: 0, syms, undefined: None, used: vec![] };
    let v = p.expr()?;
    p.ws();
    if p.i != p.s.len() {
        return Err(format!("trailing text `{}`", &s[p.i..]));
    }
    Ok((v, p.undefined, p.used))
}

// ---------------------------------------------------------------- operand syntax

fn strip_index(op: &str) -> (String, Option<char>) {
    let t = op.trim();
    let bytes = t.as_bytes();
    if bytes.len() >= 2 {
        let last = bytes[bytes.len() - 1].to_ascii_uppercase();
        if last == b'X' || last == b'Y' {
            let before = t[..t.len() - 1].trim_end();
            if before.ends_with(',') {
                return (before[..before.len() - 1].trim().to_string(), Some(last as char));
            }
        }
    }
    (t.to_string(), None)
}

fn matching_paren_wraps(s: &str) -> bool {
    // does the '(' at position 0 match the ')' at the last position?
    let b = s.as_bytes();
    if b.is_empty() || b[0] != b'(' || b[b.len() - 1] != b')' {
        return false;
    }
    let mut depth = 0;
    for (i, c) in b.iter().enumerate() {
        if *c == b'(' {
            depth += 1;
        } else if *c == b')' {
            depth -= 1;
            if depth == 0 && i != b.len() - 1 {
                return false;
            }
        }
    }
    depth == 0
}

pub fn parse_operand(op: &str) -> Syntactic {
    let t = op.trim();
    if t.is_empty() {
        return Syntactic::None;
    }
    if let Some(r) = t.strip_prefix('#') {
        return Syntactic::Imm(r.trim().to_string());
    }
    let (base, idx) = strip_index(t);
    match idx {
        Some('Y') => {
            if matching_paren_wraps(&base) {
                Syntactic::IndY(base[1..base.len() - 1].to_string())
            } else {
                Syntactic::Y(base)
            }
        }
        Some('X') => Syntactic::X(base),
        _ => {
            if matching_paren_wraps(&base) {
                let inner = base[1..base.len() - 1].trim();
                let (ib, iidx) = strip_index(inner);
                if iidx == Some('X') {
                    return Syntactic::IndX(ib);
                }
                Syntactic::Ind(inner.to_string())
            } else {
                Syntactic::Plain(base)
            }
        }
    }
}

// ---------------------------------------------------------------- assembling

pub struct Source<'a> {
    pub name: &'a str,
    pub text: &'a str,
    /// text appended after the unit (e.g. "\tRTS\n")
    pub epilogue: &'a str,
}

fn split_comment(line: &str) -> (&str, Option<&str>) {
    match line.find(';') {
        Some(i) => (&line[..i], Some(&line[i + 1..])),
        None => (line, None),
    }
}

fn parse_annot(c: &str) -> Option<(u32, Option<u32>)> {
    let t = c.trim();
    let mut it = t.splitn(2, '/');
    let a = it.next()?.trim().parse::<u32>().ok()?;
    let b = match it.next() {
        Some(x) => Some(x.trim().parse::<u32>().ok()?),
        None => None,
    };
    Some((a, b))
}

struct PLine {
    line_no: usize,
    text: String,
    label: Option<String>,
    mnemonic: Option<(String, bool)>,
    operand: String,
    annot: Option<(u32, Option<u32>)>,
    comment_only: Option<String>,
}

fn parse_line(line_no: usize, raw: &str) -> Option<PLine> {
    let line = raw.trim_end_matches(['\r', '\n']);
    if line.trim().is_empty() {
        return None;
    }
    let (code, comment) = split_comment(line);
    if code.trim().is_empty() {
        return Some(PLine {
            line_no,
            text: line.to_string(),
            label: None,
            mnemonic: None,
            operand: String::new(),
            annot: None,
            comment_only: Some(comment.unwrap_or("").to_string()),
        });
    }
    let starts_col0 = !code.starts_with(' ') && !code.starts_with('\t');
    let mut rest = code;
    let mut label = None;
    if starts_col0 {
        let end = rest.find(|c: char| c == ' ' || c == '\t').unwrap_or(rest.len());
        let mut l = &rest[..end];
        if l.ends_with(':') {
            l = &l[..l.len() - 1];
        }
        label = Some(l.to_string());
        rest = &rest[end..];
    }
    let rest = rest.trim();
    let mut mnemonic = None;
    let mut operand = String::new();
    if !rest.is_empty() {
        let end = rest.find(|c: char| c == ' ' || c == '\t').unwrap_or(rest.len());
        let m = &rest[..end];
        let lower = m.chars().any(|c| c.is_ascii_lowercase());
        mnemonic = Some((m.to_ascii_uppercase(), lower));
        operand = rest[end..].trim().to_string();
    }
    Some(PLine {
        line_no,
        text: line.to_string(),
        label,
        mnemonic,
        operand,
        annot: comment.and_then(parse_annot),
        comment_only: None,
    })
}

fn choose_mode(m: &str, syn: &Syntactic, value: i64, forward: bool) -> Result<Mode, AsmErrorKind> {
    let small = !forward && (0..0x100).contains(&value);
    let has = |mode: Mode| lookup(m, mode).is_some();
    let pick = |zp: Mode, abs: Mode| -> Option<Mode> {
        if small && has(zp) {
            Some(zp)
        } else if has(abs) {
            Some(abs)
        } else if has(zp) && (0..0x100).contains(&value) {
            Some(zp)
        } else {
            None
        }
    };
    let r = match syn {
        Syntactic::None => {
            if has(Mode::Imp) {
                Some(Mode::Imp)
            } else {
                None
            }
        }
        Syntactic::Imm(_) => {
            if has(Mode::Imm) {
                Some(Mode::Imm)
            } else {
                None
            }
        }
        Syntactic::Plain(_) => {
            if has(Mode::Rel) {
                Some(Mode::Rel)
            } else {
                pick(Mode::Zp, Mode::Abs)
            }
        }
        Syntactic::X(_) => pick(Mode::ZpX, Mode::AbsX),
        Syntactic::Y(_) => pick(Mode::ZpY, Mode::AbsY),
        Syntactic::IndY(_) => {
            if has(Mode::IndY) {
                Some(Mode::IndY)
            } else {
                None
            }
        }
        Syntactic::IndX(_) => {
            if has(Mode::IndX) {
                Some(Mode::IndX)
            } else {
                None
            }
        }
        Syntactic::Ind(_) => {
            if has(Mode::Ind) {
                Some(Mode::Ind)
            } else {
                None
            }
        }
    };
    r.ok_or_else(|| AsmErrorKind::IllegalMode(m.to_string(), format!("{:?}", syn)))
}

fn operand_expr(syn: &Syntactic) -> Option<&str> {
    match syn {
        Syntactic::None => None,
        Syntactic::Imm(e) | Syntactic::IndY(e) | Syntactic::IndX(e) | Syntactic::Ind(e) | Syntactic::X(e)
        | Syntactic::Y(e) | Syntactic::Plain(e) => Some(e.as_str()),
    }
}

/// Assemble the given units one after another starting at `org`. `globals` gives the value
/// of every non-code symbol (variables, cctmp, ...). Unit names become global code labels.
/// Local labels (leading '.') are scoped per unit.
pub fn assemble(units: &[Source], org: u16, globals: &HashMap<String, i64>) -> Result<Assembled, AsmError> {
    // ---- parse
    let mut parsed: Vec<Vec<PLine>> = Vec::new();
    for u in units {
        let mut v = Vec::new();
        let full = format!("{}{}", u.text, u.epilogue);
        for (n, l) in full.lines().enumerate() {
            if let Some(p) = parse_line(n + 1, l) {
                v.push(p);
            }
        }
        parsed.push(v);
    }
    // ---- pass 1: sizes and label addresses
    let mut code_globals: HashMap<String, i64> = HashMap::new();
    let mut locals: Vec<HashMap<String, i64>> = vec![HashMap::new(); units.len()];
    let mut modes: Vec<Vec<Option<(Syntactic, Mode)>>> = Vec::new();
    let mut pc = org as i64;
    let mut starts = Vec::new();
    let mut ends = Vec::new();
    for (ui, u) in units.iter().enumerate() {
        let mk = |pl: &PLine, kind: AsmErrorKind| AsmError {
            unit: u.name.to_string(),
            line_no: pl.line_no,
            text: pl.text.clone(),
            kind,
        };
        starts.push(pc as u16);
        if code_globals.insert(u.name.to_string(), pc).is_some() || globals.contains_key(u.name) {
            return Err(AsmError {
                unit: u.name.to_string(),
                line_no: 0,
                text: u.name.to_string(),
                kind: AsmErrorKind::DuplicateLabel(u.name.to_string()),
            });
        }
        let mut ms = Vec::new();
        for pl in &parsed[ui] {
            if let Some(l) = &pl.label {
                if l.starts_with('.') {
                    if locals[ui].insert(l.clone(), pc).is_some() {
                        return Err(mk(pl, AsmErrorKind::DuplicateLabel(l.clone())));
                    }
                } else if code_globals.insert(l.clone(), pc).is_some() || globals.contains_key(l) {
                    return Err(mk(pl, AsmErrorKind::DuplicateLabel(l.clone())));
                }
            }
            if let Some((m, _)) = &pl.mnemonic {
                if !is_mnemonic(m) {
                    return Err(mk(pl, AsmErrorKind::UnknownMnemonic(m.clone())));
                }
                let syn = parse_operand(&pl.operand);
                let (value, forward) = match operand_expr(&syn) {
                    None => (0, false),
                    Some(e) => {
                        let lookup = |name: &str| -> Option<i64> {
                            if name.starts_with('.') {
                                locals[ui].get(name).copied()
                            } else {
                                globals.get(name).copied().or_else(|| code_globals.get(name).copied())
                            }
                        };
                        match eval_expr(e, &lookup) {
                            Ok((v, undef, _)) => (v, undef.is_some()),
                            Err(s) => return Err(mk(pl, AsmErrorKind::Syntax(s))),
                        }
                    }
                };
                let mode = choose_mode(m, &syn, value, forward).map_err(|k| mk(pl, k))?;
                pc += mode.size() as i64;
                ms.push(Some((syn, mode)));
            } else {
                ms.push(None);
            }
        }
        modes.push(ms);
        if pc > 0xFFF0 {
            return Err(AsmError { unit: u.name.to_string(), line_no: 0, text: String::new(), kind: AsmErrorKind::ImageTooLarge });
        }
        ends.push(pc as u16);
    }
    // ---- pass 2: encode
    let mut out = Assembled::default();
    out.globals = globals.clone();
    for (k, v) in &code_globals {
        out.globals.insert(k.clone(), *v);
    }
    let mut pc = org as i64;
    for (ui, u) in units.iter().enumerate() {
        let mut unit = Unit { name: u.name.to_string(), start: starts[ui], end: ends[ui], items: vec![] };
        for (li, pl) in parsed[ui].iter().enumerate() {
            let mk = |kind: AsmErrorKind| AsmError {
                unit: u.name.to_string(),
                line_no: pl.line_no,
                text: pl.text.clone(),
                kind,
            };
            if let Some(c) = &pl.comment_only {
                unit.items.push(Item::Comment(c.clone()));
                continue;
            }
            if let Some(l) = &pl.label {
                unit.items.push(Item::Label(l.clone(), pc as u16));
            }
            if let (Some((m, lower)), Some((syn, mode))) = (&pl.mnemonic, &modes[ui][li]) {
                let lookup_sym = |name: &str| -> Option<i64> {
                    if name.starts_with('.') {
                        locals[ui].get(name).copied()
                    } else {
                        globals.get(name).copied().or_else(|| code_globals.get(name).copied())
                    }
                };
                let (value, used) = match operand_expr(syn) {
                    None => (0, vec![]),
                    Some(e) => match eval_expr(e, &lookup_sym) {
                        Ok((_, Some(undef), _)) => return Err(mk(AsmErrorKind::UndefinedSymbol(undef))),
                        Ok((v, None, used)) => (v, used),
                        Err(s) => return Err(mk(AsmErrorKind::Syntax(s))),
                    },
                };
                let (opcode, cycles, page_cross) = lookup(m, *mode).unwrap();
                let addr = pc as u16;
                out.bytes.insert(addr, opcode);
                match mode {
                    Mode::Imp => {}
                    Mode::Imm => {
                        if !(-128..256).contains(&value) {
                            return Err(mk(AsmErrorKind::ValueRange(pl.operand.clone(), value)));
                        }
                        out.bytes.insert(addr.wrapping_add(1), (value & 0xff) as u8);
                    }
                    Mode::Zp | Mode::ZpX | Mode::ZpY | Mode::IndX | Mode::IndY => {
                        if !(0..256).contains(&value) {
                            return Err(mk(AsmErrorKind::ValueRange(pl.operand.clone(), value)));
                        }
                        out.bytes.insert(addr.wrapping_add(1), value as u8);
                    }
                    Mode::Abs | Mode::AbsX | Mode::AbsY | Mode::Ind => {
                        if !(0..0x10000).contains(&value) {
                            return Err(mk(AsmErrorKind::ValueRange(pl.operand.clone(), value)));
                        }
                        out.bytes.insert(addr.wrapping_add(1), (value & 0xff) as u8);
                        out.bytes.insert(addr.wrapping_add(2), ((value >> 8) & 0xff) as u8);
                    }
                    Mode::Rel => {
                        let disp = value - (pc + 2);
                        if !(-128..=127).contains(&disp) {
                            return Err(mk(AsmErrorKind::BranchOutOfRange(pl.operand.clone(), disp as i32)));
                        }
                        out.bytes.insert(addr.wrapping_add(1), (disp & 0xff) as u8);
                    }
                }
                unit.items.push(Item::Instr(Instr {
                    unit: ui,
                    line_no: pl.line_no,
                    text: pl.text.clone(),
                    mnemonic: m.clone(),
                    lowercase: *lower,
                    syn: syn.clone(),
                    mode: *mode,
                    addr,
                    opcode,
                    cycles,
                    page_cross,
                    value,
                    symbols: used,
                    annot: pl.annot,
                }));
                pc += mode.size() as i64;
            }
        }
        out.units.push(unit);
    }
    Ok(out)
}

#[cfg(test)]
mod tests {
    use super::*;
    #[test]
    fn basic() {
        let mut g = HashMap::new();
        g.insert("a".to_string(), 0x10);
        g.insert("big".to_string(), 0x210);
        let src = "\tLDA a\n\tSTA big+1\n.l\n\tLDA #<(big+2)\n\tLDA (a),Y\n\tLDA a,Y\n\tLDX a,Y\n\tBNE .l\n\tJMP .l\n\tASL\n";
        let a = assemble(&[Source { name: "f", text: src, epilogue: "\tRTS\n" }], 0xC000, &g).unwrap();
        let sizes: Vec<u32> = a.instrs().map(|i| i.mode.size()).collect();
        assert_eq!(sizes, vec![2, 3, 2, 2, 3, 2, 2, 3, 1, 1]);
        assert_eq!(a.units[0].end - a.units[0].start, 21);
    }
    #[test]
    fn errors() {
        let g = HashMap::new();
        let e = assemble(&[Source { name: "f", text: "\tLDA nope\n", epilogue: "" }], 0xC000, &g).unwrap_err();
        assert!(matches!(e.kind, AsmErrorKind::UndefinedSymbol(_)));
        let e = assemble(&[Source { name: "f", text: ".a\n.a\n", epilogue: "" }], 0xC000, &g).unwrap_err();
        assert!(matches!(e.kind, AsmErrorKind::DuplicateLabel(_)));
        let e = assemble(&[Source { name: "f", text: "\tSTA #1\n", epilogue: "" }], 0xC000, &g).unwrap_err();
        assert!(matches!(e.kind, AsmErrorKind::IllegalMode(_, _)));
    }
}
