//! AST of generated programs (the C subset cc6502 accepts) and its printers.
use serde::{Deserialize, Serialize};

#[derive(Debug, Clone, Copy, PartialEq, Eq, Hash, Serialize, Deserialize, PartialOrd, Ord)]
pub enum Ty {
    U8,
    I8,
    U16,
    I16,
    /// char * (16-bit address)
    Ptr,
}

impl Ty {
    pub fn bits(self) -> u32 {
        match self {
            Ty::U8 | Ty::I8 => 8,
            _ => 16,
        }
    }
    pub fn signed(self) -> bool {
        matches!(self, Ty::I8 | Ty::I16)
    }
    pub fn bytes(self) -> u16 {
        (self.bits() / 8) as u16
    }
    /// C spelling; `plain_char_signed` tells whether plain `char` is signed (--fsigned_char)
    pub fn spell(self, explicit_sign: bool) -> &'static str {
        match (self, explicit_sign) {
            (Ty::U8, false) => "char",
            (Ty::U8, true) => "unsigned char",
            (Ty::I8, _) => "signed char",
            (Ty::U16, _) => "unsigned short",
            (Ty::I16, false) => "short",
            (Ty::I16, true) => "signed short",
            (Ty::Ptr, _) => "char *",
        }
    }
}

#[derive(Debug, Clone, Copy, PartialEq, Eq, Hash, Serialize, Deserialize)]
pub enum MemQual {
    Default,
    Superchip,
    Ramchip,
    Bank(u32),
}

#[derive(Debug, Clone, PartialEq, Serialize, Deserialize)]
pub enum VarKind {
    Scalar,
    /// RAM array of n elements
    Array(usize),
    /// const table with initialisers (ROM)
    ConstTable(Vec<i32>),
    /// const scalar with a value
    ConstScalar(i32),
    /// constant pointer to a fixed address: `char * const R = 0x..`
    ConstPtr(i32),
}

#[derive(Debug, Clone, PartialEq, Serialize, Deserialize)]
pub struct VarDecl {
    pub name: String,
    pub ty: Ty,
    pub kind: VarKind,
    pub mem: MemQual,
    /// spell the sign explicitly (`unsigned char`)
    pub explicit_sign: bool,
    /// local variables only: `char x = e;`
    pub init: Option<Expr>,
}

impl VarDecl {
    pub fn scalar(name: &str, ty: Ty) -> VarDecl {
        VarDecl { name: name.into(), ty, kind: VarKind::Scalar, mem: MemQual::Default, explicit_sign: false, init: None }
    }
    pub fn array(name: &str, ty: Ty, n: usize) -> VarDecl {
        VarDecl { name: name.into(), ty, kind: VarKind::Array(n), mem: MemQual::Default, explicit_sign: false, init: None }
    }
    pub fn len(&self) -> usize {
        match &self.kind {
            VarKind::Array(n) => *n,
            VarKind::ConstTable(v) => v.len(),
            _ => 1,
        }
    }
    pub fn is_array(&self) -> bool {
        matches!(self.kind, VarKind::Array(_) | VarKind::ConstTable(_))
    }
}

#[derive(Debug, Clone, Copy, PartialEq, Eq, Hash, Serialize, Deserialize)]
pub enum UnOp {
    Neg,
    BNot,
    LNot,
}

#[derive(Debug, Clone, Copy, PartialEq, Eq, Hash, Serialize, Deserialize)]
pub enum BinOp {
    Mul,
    Div,
    Add,
    Sub,
    Shl,
    Shr,
    Lt,
    Le,
    Gt,
    Ge,
    Eq,
    Ne,
    And,
    Xor,
    Or,
    LAnd,
    LOr,
}

impl BinOp {
    pub fn spell(self) -> &'static str {
        use BinOp::*;
        match self {
            Mul => "*",
            Div => "/",
            Add => "+",
            Sub => "-",
            Shl => "<<",
            Shr => ">>",
            Lt => "<",
            Le => "<=",
            Gt => ">",
            Ge => ">=",
            Eq => "==",
            Ne => "!=",
            And => "&",
            Xor => "^",
            Or => "|",
            LAnd => "&&",
            LOr => "||",
        }
    }
    /// ISO C precedence (higher binds tighter)
    pub fn prec(self) -> u8 {
        use BinOp::*;
        match self {
            Mul | Div => 13,
            Add | Sub => 12,
            Shl | Shr => 11,
            Lt | Le | Gt | Ge => 10,
            Eq | Ne => 9,
            And => 8,
            Xor => 7,
            Or => 6,
            LAnd => 5,
            LOr => 4,
        }
    }
    pub fn is_cmp(self) -> bool {
        use BinOp::*;
        matches!(self, Lt | Le | Gt | Ge | Eq | Ne)
    }
    pub fn is_rel(self) -> bool {
        use BinOp::*;
        matches!(self, Lt | Le | Gt | Ge)
    }
    pub fn commutative(self) -> bool {
        use BinOp::*;
        matches!(self, Add | And | Or | Xor | Mul)
    }
}

#[derive(Debug, Clone, Copy, PartialEq, Eq, Hash, Serialize, Deserialize)]
pub enum LitFmt {
    Dec,
    Hex,
    Oct,
    Char,
}

#[derive(Debug, Clone, PartialEq, Serialize, Deserialize)]
pub enum LValue {
    Var(String),
    Index(String, Box<Expr>),
    /// *p
    Deref(String),
}

#[derive(Debug, Clone, PartialEq, Serialize, Deserialize)]
pub enum Expr {
    Lit(i32, LitFmt),
    Lv(LValue),
    /// address of an array (array name used as a value), `arr` or `arr + k` is Bin(Add, AddrOf, Lit)
    AddrOf(String),
    Un(UnOp, Box<Expr>),
    Bin(BinOp, Box<Expr>, Box<Expr>),
    /// None = plain assignment
    Assign(Option<BinOp>, LValue, Box<Expr>),
    /// (is_increment, is_prefix)
    IncDec(bool, bool, LValue),
    Call(String, Vec<Expr>),
    Ternary(Box<Expr>, Box<Expr>, Box<Expr>),
    Comma(Box<Expr>, Box<Expr>),
    SizeofVar(String),
    SizeofType(Ty),
}

impl Expr {
    pub fn lit(v: i32) -> Expr {
        Expr::Lit(v, LitFmt::Dec)
    }
    pub fn var(n: &str) -> Expr {
        Expr::Lv(LValue::Var(n.to_string()))
    }
    pub fn bin(op: BinOp, a: Expr, b: Expr) -> Expr {
        Expr::Bin(op, Box::new(a), Box::new(b))
    }
    pub fn assign(lv: LValue, e: Expr) -> Expr {
        Expr::Assign(None, lv, Box::new(e))
    }
}

#[derive(Debug, Clone, PartialEq, Serialize, Deserialize)]
pub struct Case {
    pub labels: Vec<i32>,
    pub body: Vec<Stmt>,
}

#[derive(Debug, Clone, PartialEq, Serialize, Deserialize)]
pub enum Stmt {
    Expr(Expr),
    Decl(VarDecl),
    Block(Vec<Stmt>),
    If(Expr, Box<Stmt>, Option<Box<Stmt>>),
    While(Expr, Box<Stmt>),
    DoWhile(Box<Stmt>, Expr),
    For(Option<Expr>, Option<Expr>, Option<Expr>, Box<Stmt>),
    Switch(Expr, Vec<Case>, Option<Vec<Stmt>>),
    Break,
    Continue,
    Goto(String),
    Label(String, Box<Stmt>),
    Return(Option<Expr>),
    Empty,
    /// inline assembler text with optional declared size
    Asm(String, Option<u32>),
    Csleep(i32),
    Load(Expr),
    Store(LValue),
    Strobe(LValue),
}

#[derive(Debug, Clone, PartialEq, Serialize, Deserialize)]
pub struct Func {
    pub name: String,
    pub ret: Option<Ty>,
    pub params: Vec<(String, Ty)>,
    pub body: Vec<Stmt>,
    pub inline: bool,
    pub interrupt: bool,
    /// emit a prototype before the first function
    pub proto: bool,
    /// ROM bank of the function (0 = the default bank; printed as `bankN` otherwise)
    #[serde(default)]
    pub bank: u32,
}

#[derive(Debug, Clone, PartialEq, Serialize, Deserialize, Default)]
pub struct Program {
    pub globals: Vec<VarDecl>,
    pub funcs: Vec<Func>,
}

// ------------------------------------------------------------------------------ printing

#[derive(Debug, Clone, Copy, PartialEq, Eq)]
pub enum Parens {
    /// every sub-expression parenthesised
    Full,
    /// only where ISO C precedence/associativity requires them
    Minimal,
}

pub struct Printer {
    pub parens: Parens,
    /// plain `char` is signed (--fsigned_char): U8 is always spelled `unsigned char`
    pub plain_char_signed: bool,
    pub out: String,
    indent: usize,
}

pub fn spell_ty(t: Ty, explicit_sign: bool, plain_char_signed: bool) -> &'static str {
    match (t, plain_char_signed) {
        (Ty::U8, true) => "unsigned char",
        (Ty::I8, true) => {
            if explicit_sign {
                "signed char"
            } else {
                "char"
            }
        }
        _ => t.spell(explicit_sign),
    }
}

const PREC_COMMA: u8 = 1;
const PREC_ASSIGN: u8 = 2;
const PREC_TERNARY: u8 = 3;
const PREC_UNARY: u8 = 14;
const PREC_POSTFIX: u8 = 15;

pub fn fmt_lit(v: i32, f: LitFmt) -> String {
    match f {
        LitFmt::Dec => format!("{}", v),
        LitFmt::Hex if v >= 0 => format!("0x{:x}", v),
        LitFmt::Oct if v > 0 => format!("0{:o}", v),
        LitFmt::Char if (32..127).contains(&v) && v != 39 && v != 92 && v != 34 => format!("'{}'", v as u8 as char),
        _ => format!("{}", v),
    }
}

impl Printer {
    pub fn new(parens: Parens) -> Printer {
        Printer { parens, plain_char_signed: false, out: String::new(), indent: 0 }
    }

    fn lv(&mut self, lv: &LValue) -> String {
        match lv {
            LValue::Var(n) => n.clone(),
            LValue::Index(n, e) => format!("{}[{}]", n, self.expr(e, 0)),
            LValue::Deref(p) => format!("*{}", p),
        }
    }

    fn prec_of(e: &Expr) -> u8 {
        match e {
            Expr::Lit(v, _) => {
                if *v < 0 {
                    PREC_UNARY
                } else {
                    16
                }
            }
            Expr::Lv(LValue::Deref(_)) => PREC_UNARY,
            Expr::Lv(_) | Expr::AddrOf(_) | Expr::Call(_, _) | Expr::SizeofVar(_) | Expr::SizeofType(_) => 16,
            Expr::Un(_, _) => PREC_UNARY,
            Expr::IncDec(_, true, _) => PREC_UNARY,
            Expr::IncDec(_, false, _) => PREC_POSTFIX,
            Expr::Bin(op, _, _) => op.prec(),
            Expr::Assign(_, _, _) => PREC_ASSIGN,
            Expr::Ternary(_, _, _) => PREC_TERNARY,
            Expr::Comma(_, _) => PREC_COMMA,
        }
    }

    /// print `e` in a context that requires precedence >= `min`
    pub fn expr(&mut self, e: &Expr, min: u8) -> String {
        let p = Self::prec_of(e);
        let s = match e {
            Expr::Lit(v, f) => fmt_lit(*v, *f),
            Expr::Lv(lv) => self.lv(lv),
            Expr::AddrOf(n) => n.clone(),
            Expr::Un(op, a) => {
                let o = match op {
                    UnOp::Neg => "-",
                    UnOp::BNot => "~",
                    UnOp::LNot => "!",
                };
                let inner = self.expr(a, PREC_UNARY);
                // avoid "--x" / "- -1" token pasting
                if *op == UnOp::Neg && inner.starts_with('-') {
                    format!("{}({})", o, inner)
                } else {
                    format!("{}{}", o, inner)
                }
            }
            Expr::Bin(op, a, b) => {
                let (la, rb) = match self.parens {
                    Parens::Full => (16, 16),
                    // left-associative: the right operand needs strictly higher precedence
                    Parens::Minimal => (op.prec(), op.prec() + 1),
                };
                let l = self.expr(a, la);
                let mut r = self.expr(b, rb);
                if (*op == BinOp::Sub && r.starts_with('-')) || (*op == BinOp::Add && r.starts_with('+')) {
                    r = format!("({})", r);
                }
                if *op == BinOp::And && r.starts_with('&') {
                    r = format!("({})", r);
                }
                format!("{} {} {}", l, op.spell(), r)
            }
            Expr::Assign(op, lv, r) => {
                let l = self.lv(lv);
                let o = match op {
                    None => "=".to_string(),
                    Some(b) => format!("{}=", b.spell()),
                };
                let r = self.expr(r, PREC_ASSIGN);
                format!("{} {} {}", l, o, r)
            }
            Expr::IncDec(inc, prefix, lv) => {
                let mut l = self.lv(lv);
                if let LValue::Deref(_) = lv {
                    l = format!("({})", l);
                }
                let o = if *inc { "++" } else { "--" };
                if *prefix {
                    format!("{}{}", o, l)
                } else {
                    format!("{}{}", l, o)
                }
            }
            Expr::Call(f, args) => {
                let a: Vec<String> = args.iter().map(|x| self.expr(x, PREC_ASSIGN)).collect();
                format!("{}({})", f, a.join(", "))
            }
            Expr::Ternary(c, a, b) => {
                // nested conditionals are always parenthesised (the compiler's grammar wants it)
                let (pc, pa, pb) = match self.parens {
                    Parens::Full => (16, 16, 16),
                    Parens::Minimal => (4, 4, 4),
                };
                let c = self.expr(c, pc);
                let a = self.expr(a, pa);
                let b = self.expr(b, pb);
                format!("{} ? {} : {}", c, a, b)
            }
            Expr::Comma(a, b) => {
                let a = self.expr(a, PREC_ASSIGN);
                let b = self.expr(b, PREC_ASSIGN);
                format!("{}, {}", a, b)
            }
            Expr::SizeofVar(n) => format!("sizeof({})", n),
            Expr::SizeofType(t) => format!("sizeof({})", t.spell(false).trim_end_matches(" *")),
        };
        if p < min {
            format!("({})", s)
        } else {
            s
        }
    }

    fn line(&mut self, s: &str) {
        for _ in 0..self.indent {
            self.out.push_str("  ");
        }
        self.out.push_str(s);
        self.out.push('\n');
    }

    pub fn decl_text(&mut self, d: &VarDecl, global: bool) -> String {
        let mut q = String::new();
        match d.mem {
            MemQual::Default => {}
            MemQual::Superchip => q.push_str("superchip "),
            MemQual::Ramchip => q.push_str("ramchip "),
            MemQual::Bank(n) => q.push_str(&format!("bank{} ", n)),
        }
        let base = if d.ty == Ty::Ptr { "char".to_string() } else { spell_ty(d.ty, d.explicit_sign, self.plain_char_signed).to_string() };
        let star = if d.ty == Ty::Ptr { "*" } else { "" };
        match &d.kind {
            VarKind::Scalar => {
                let init = match &d.init {
                    Some(e) if !global => format!(" = {}", self.expr(e, PREC_ASSIGN)),
                    _ => String::new(),
                };
                format!("{}{} {}{}{};", q, base, star, d.name, init)
            }
            VarKind::Array(n) => format!("{}{} {}{}[{}];", q, base, star, d.name, n),
            VarKind::ConstTable(v) => {
                let items: Vec<String> = v.iter().map(|x| format!("{}", x)).collect();
                format!("{}const {} {}{}[{}] = {{{}}};", q, base, star, d.name, v.len(), items.join(", "))
            }
            VarKind::ConstScalar(v) => format!("{}const {} {} = {};", q, base, d.name, v),
            VarKind::ConstPtr(a) => format!("{}{} * const {} = 0x{:x};", q, base, d.name, a),
        }
    }

    pub fn stmt(&mut self, s: &Stmt) {
        match s {
            Stmt::Expr(e) => {
                let t = self.expr(e, 0);
                self.line(&format!("{};", t));
            }
            Stmt::Decl(d) => {
                let t = self.decl_text(d, false);
                self.line(&t);
            }
            Stmt::Block(b) => {
                self.line("{");
                self.indent += 1;
                for x in b {
                    self.stmt(x);
                }
                self.indent -= 1;
                self.line("}");
            }
            Stmt::If(c, a, b) => {
                let c = self.expr(c, 0);
                self.line(&format!("if ({})", c));
                if b.is_some() && !matches!(**a, Stmt::Block(_)) {
                    // braces keep the else attached to this if (dangling-else)
                    self.stmt(&Stmt::Block(vec![(**a).clone()]));
                } else {
                    self.body(a);
                }
                if let Some(b) = b {
                    self.line("else");
                    self.body(b);
                }
            }
            Stmt::While(c, b) => {
                let c = self.expr(c, 0);
                self.line(&format!("while ({})", c));
                self.body(b);
            }
            Stmt::DoWhile(b, c) => {
                self.line("do");
                self.body(b);
                let c = self.expr(c, 0);
                self.line(&format!("while ({});", c));
            }
            Stmt::For(i, c, u, b) => {
                let i = i.as_ref().map(|e| self.expr(e, 0)).unwrap_or_default();
                let c = c.as_ref().map(|e| self.expr(e, 0)).unwrap_or_default();
                let u = u.as_ref().map(|e| self.expr(e, 0)).unwrap_or_default();
                self.line(&format!("for ({}; {}; {})", i, c, u));
                self.body(b);
            }
            Stmt::Switch(e, cases, default) => {
                let e = self.expr(e, 0);
                self.line(&format!("switch ({}) {{", e));
                self.indent += 1;
                for c in cases {
                    for l in &c.labels {
                        self.line(&format!("case {}:", l));
                    }
                    self.indent += 1;
                    for x in &c.body {
                        self.stmt(x);
                    }
                    self.indent -= 1;
                }
                if let Some(d) = default {
                    self.line("default:");
                    self.indent += 1;
                    for x in d {
                        self.stmt(x);
                    }
                    self.indent -= 1;
                }
                self.indent -= 1;
                self.line("}");
            }
            Stmt::Break => self.line("break;"),
            Stmt::Continue => self.line("continue;"),
            Stmt::Goto(l) => self.line(&format!("goto {};", l)),
            Stmt::Label(l, s) => {
                self.line(&format!("{}:", l));
                self.stmt(s);
            }
            Stmt::Return(None) => self.line("return;"),
            Stmt::Return(Some(e)) => {
                let e = self.expr(e, 0);
                self.line(&format!("return {};", e));
            }
            Stmt::Empty => self.line(";"),
            Stmt::Asm(t, None) => self.line(&format!("asm(\"{}\");", t)),
            Stmt::Asm(t, Some(n)) => self.line(&format!("asm(\"{}\", {});", t, n)),
            Stmt::Csleep(n) => self.line(&format!("csleep({});", n)),
            Stmt::Load(e) => {
                let e = self.expr(e, 0);
                self.line(&format!("load({});", e));
            }
            Stmt::Store(lv) => {
                let l = self.lv(lv);
                self.line(&format!("store({});", l));
            }
            Stmt::Strobe(lv) => {
                let l = self.lv(lv);
                self.line(&format!("strobe({});", l));
            }
        }
    }

    fn body(&mut self, s: &Stmt) {
        if let Stmt::Block(_) = s {
            self.stmt(s);
        } else {
            self.indent += 1;
            self.stmt(s);
            self.indent -= 1;
        }
    }

    pub fn func_header(f: &Func, pcs: bool) -> String {
        let ret = match f.ret {
            None => "void".to_string(),
            Some(t) => spell_ty(t, false, pcs).to_string(),
        };
        let params: Vec<String> = f
            .params
            .iter()
            .map(|(n, t)| {
                if *t == Ty::Ptr {
                    format!("char *{}", n)
                } else {
                    format!("{} {}", spell_ty(*t, false, pcs), n)
                }
            })
            .collect();
        format!(
            "{}{}{} {}{}({})",
            if f.bank > 0 { format!("bank{} ", f.bank) } else { String::new() },
            if f.inline { "inline " } else { "" },
            ret,
            if f.interrupt { "interrupt " } else { "" },
            f.name,
            params.join(", ")
        )
    }

    pub fn program(&mut self, p: &Program) {
        let mut i = 0;
        while i < p.globals.len() {
            let g = &p.globals[i];
            let mut t = self.decl_text(g, true);
            // two consecutive constant pointers of one type are declared together now and then
            // (`char * const A = 0x280, * const B = 0x0;`): decided by the addresses, so that the
            // text is a function of the program
            if let (VarKind::ConstPtr(a), Some(h)) = (&g.kind, p.globals.get(i + 1)) {
                if let VarKind::ConstPtr(b) = &h.kind {
                    if h.ty == g.ty && h.mem == g.mem && h.explicit_sign == g.explicit_sign && (a + b) % 2 == 0 {
                        t.pop();
                        t.push_str(&format!(", * const {} = 0x{:x};", h.name, b));
                        i += 1;
                    }
                }
            }
            self.line(&t);
            i += 1;
        }
        for f in &p.funcs {
            if f.proto {
                // (the prototype of an interrupt handler carries the keyword or not — decided by the
                // name, so that the text is a function of the program; the definition always has it)
                let h = Self::func_header(&Func { inline: false, interrupt: f.interrupt && f.name.len() % 2 == 1, ..f.clone() }, self.plain_char_signed);
                self.line(&format!("{};", h));
            }
        }
        for f in &p.funcs {
            self.line("");
            let h = Self::func_header(f, self.plain_char_signed);
            self.line(&h);
            self.line("{");
            self.indent += 1;
            for s in &f.body {
                self.stmt(s);
            }
            self.indent -= 1;
            self.line("}");
        }
    }
}

pub fn print_program_sc(p: &Program, parens: Parens, plain_char_signed: bool) -> String {
    let mut pr = Printer::new(parens);
    pr.plain_char_signed = plain_char_signed;
    pr.program(p);
    pr.out
}

pub fn print_program(p: &Program, parens: Parens) -> String {
    let mut pr = Printer::new(parens);
    pr.program(p);
    pr.out
}

pub fn print_expr(e: &Expr, parens: Parens) -> String {
    let mut pr = Printer::new(parens);
    pr.expr(e, 0)
}
