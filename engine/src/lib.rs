pub mod asm6502;
pub mod ast;
pub mod cc;
pub mod emu6502;
pub mod exec;
pub mod layout;
