//! RefC: reference interpreter of the generated-program AST. No code shared with cc6502.
//!
//! A *reading* fixes the arithmetic rules: ISO C with 16-bit int, or one of the "narrow"
//! dialect readings (operators on chars are 8-bit operations), see DESIGN.md section 4.
//! Callers run every reading and compare with compiled code only where all readings agree.
use crate::ast::*;
use crate::exec::{Init, InitVal};
use crate::layout::{Layout, MemClass};
use std::collections::{BTreeMap, HashMap};

#[derive(Debug, Clone, Copy, PartialEq, Eq, Hash)]
pub enum SignRule {
    Left,
    Either,
    Both,
}

#[derive(Debug, Clone, Copy, PartialEq, Eq, Hash)]
pub struct Reading {
    pub iso: bool,
    /// narrow only: an assignment's destination width widens the operators below it
    pub ctx: bool,
    pub sign: SignRule,
    /// narrow only: the value of a comparison / logical operator is an unsigned char, and a
    /// literal meeting an 8-bit operand is truncated to that operand's width
    pub narrowest: bool,
}

pub const READINGS: [Reading; 7] = [
    Reading { iso: true, ctx: false, sign: SignRule::Left, narrowest: false },
    Reading { iso: false, ctx: true, sign: SignRule::Left, narrowest: false },
    Reading { iso: false, ctx: true, sign: SignRule::Either, narrowest: false },
    Reading { iso: false, ctx: true, sign: SignRule::Both, narrowest: false },
    Reading { iso: false, ctx: false, sign: SignRule::Left, narrowest: true },
    Reading { iso: false, ctx: false, sign: SignRule::Either, narrowest: true },
    Reading { iso: false, ctx: false, sign: SignRule::Both, narrowest: true },
];

#[derive(Debug, Clone, PartialEq)]
pub enum Abort {
    /// undefined behaviour in C (out-of-bounds, uninitialised read, wild pointer ...)
    UB(String),
    /// result depends on an unspecified evaluation order
    Unspecified(String),
    /// step budget exhausted
    Timeout,
    /// construct outside the interpreter's domain (generator bug if it happens)
    Unsupported(String),
    /// the execution entered the region of an active (dynamic) exclusion rule
    Excluded(&'static str),
}

#[derive(Debug, Clone, Copy, PartialEq, Eq)]
enum Sg {
    S,
    U,
    /// literal-like: adapts to the other operand (narrow readings)
    N,
}

#[derive(Debug, Clone, Copy, PartialEq)]
struct V {
    v: i32,
    bits: u32,
    sg: Sg,
}

fn wrap(v: i64, bits: u32, signed: bool) -> i32 {
    let m = 1i64 << bits;
    let mut r = v.rem_euclid(m);
    if signed && r >= m / 2 {
        r -= m;
    }
    r as i32
}

fn wrap_ty(v: i64, ty: Ty) -> i32 {
    wrap(v, ty.bits(), ty.signed())
}

fn v_of(v: i32, ty: Ty) -> V {
    V { v, bits: ty.bits(), sg: if ty.signed() { Sg::S } else { Sg::U } }
}

#[derive(Debug, Clone, PartialEq)]
pub enum Event {
    Load(u16),
    Store(u16),
    Strobe(u16),
    Asm(String),
    Csleep(i32),
}

#[derive(Debug, Clone, PartialEq)]
pub struct FinalState {
    pub globals: BTreeMap<String, Vec<u8>>,
    pub x: u8,
    pub y: u8,
    pub steps: u64,
    pub events: Vec<Event>,
    /// variables whose value is unspecified (store() after the accumulator was disturbed, asm)
    pub unspecified: Vec<String>,
    pub changed: bool,
    /// hash of the history of stores and decisions
    pub trace: u64,
}

#[derive(Default, Clone)]
struct Eff {
    reads: Vec<u32>,
    writes: Vec<u32>,
}

impl Eff {
    fn merge(&mut self, o: Eff) {
        self.reads.extend(o.reads);
        self.writes.extend(o.writes);
    }
    fn conflicts(&self, o: &Eff) -> bool {
        self.writes.iter().any(|w| o.reads.contains(w) || o.writes.contains(w))
            || o.writes.iter().any(|w| self.reads.contains(w))
    }
}

enum Flow {
    Normal,
    Break,
    Continue,
    Return(Option<V>),
    Goto(String),
}

#[derive(Clone)]
struct LocalVar {
    ty: Ty,
    vals: Vec<Option<i32>>,
    is_array: bool,
    id: u32,
}

struct Frame {
    scopes: Vec<HashMap<String, LocalVar>>,
}

const MEM_SIZE: usize = 0x1800;
const KEY_X: u32 = 0x10_0000;
const KEY_Y: u32 = 0x10_0001;
const KEY_LOCAL: u32 = 0x20_0000;

struct GInfo {
    decl: VarDecl,
    addr: u16,
    class: MemClass,
}

pub struct Interp<'a> {
    prog: &'a Program,
    layout: &'a Layout,
    rd: Reading,
    signed_char_default: bool,
    mem: Vec<u8>,
    x: u8,
    y: u8,
    globals: HashMap<String, GInfo>,
    funcs: HashMap<String, &'a Func>,
    frames: Vec<Frame>,
    eff: Vec<Eff>,
    steps: u64,
    max_steps: u64,
    next_local_id: u32,
    events: Vec<Event>,
    ghost_acc: Option<u8>,
    /// addresses whose content is unspecified since a strobe wrote the accumulator there
    strobed: std::collections::BTreeSet<u16>,
    acc_valid: bool,
    unspecified: Vec<String>,
    depth: u32,
    /// dynamic exclusion: signed relational compare whose exact difference overflows
    pub excl_signed_rel_overflow: bool,
    /// rolling hash of every store and every statement-level decision, in order: readings
    /// agree only if these histories are identical (so any per-expression mixture of the
    /// readings gives the same execution as well)
    trace: u64,
}

type R<T> = Result<T, Abort>;

fn ub<T>(s: &str) -> R<T> {
    Err(Abort::UB(s.to_string()))
}

impl<'a> Interp<'a> {
    pub fn new(prog: &'a Program, layout: &'a Layout, rd: Reading, init: &Init, max_steps: u64) -> R<Interp<'a>> {
        let mut it = Interp {
            prog,
            layout,
            rd,
            signed_char_default: false,
            mem: (0..MEM_SIZE).map(|a| crate::exec::fill_byte(init.fill, a as u16)).collect(),
            x: init.x,
            y: init.y,
            globals: HashMap::new(),
            funcs: HashMap::new(),
            frames: vec![],
            eff: vec![Eff::default()],
            steps: 0,
            max_steps,
            next_local_id: 0,
            events: vec![],
            ghost_acc: None,
            strobed: Default::default(),
            acc_valid: false,
            unspecified: vec![],
            depth: 0,
            excl_signed_rel_overflow: false,
            trace: 0xcbf29ce484222325,
        };
        for f in &prog.funcs {
            it.funcs.insert(f.name.clone(), f);
        }
        for g in &prog.globals {
            match &g.kind {
                VarKind::ConstScalar(_) | VarKind::ConstPtr(_) => {
                    if let VarKind::ConstPtr(a) = &g.kind {
                        if !crate::layout::is_reg_addr(*a as u16) {
                            return Err(Abort::Unsupported("constant pointer outside the register areas".into()));
                        }
                        if let Some(InitVal::Bytes(b)) = init.vars.get(&g.name) {
                            it.mem[*a as usize] = b.first().copied().unwrap_or(0);
                        }
                    }
                    it.globals.insert(g.name.clone(), GInfo { decl: g.clone(), addr: 0, class: MemClass::Equ });
                }
                _ => {
                    let o = match layout.object(&g.name) {
                        Some(o) => o,
                        None => return Err(Abort::Unsupported(format!("global {} not in layout", g.name))),
                    };
                    if o.class != MemClass::Rom {
                        if o.addr as usize + o.bytes as usize > MEM_SIZE {
                            return Err(Abort::Unsupported("object outside RefC memory".into()));
                        }
                        let bytes: Vec<u8> = match init.vars.get(&g.name) {
                            Some(InitVal::Bytes(b)) => b.clone(),
                            Some(InitVal::Ptr(t, off)) => {
                                let base = layout.symbols.get(t).copied().unwrap_or(0);
                                let a = (base + *off as i64) as u16;
                                vec![(a & 0xff) as u8, (a >> 8) as u8]
                            }
                            None => vec![],
                        };
                        for i in 0..o.bytes as usize {
                            it.mem[o.addr as usize + i] = bytes.get(i).copied().unwrap_or(0);
                        }
                    }
                    it.globals.insert(g.name.clone(), GInfo { decl: g.clone(), addr: o.addr, class: o.class });
                }
            }
        }
        Ok(it)
    }

    #[inline]
    fn note(&mut self, a: u64, b: u64) {
        let mut h = self.trace;
        for x in [a, b] {
            h ^= x;
            h = h.wrapping_mul(0x100000001b3);
            h ^= h >> 29;
        }
        self.trace = h;
    }

    fn tick(&mut self) -> R<()> {
        self.steps += 1;
        if self.steps > self.max_steps {
            Err(Abort::Timeout)
        } else {
            Ok(())
        }
    }

    // ------------------------------------------------------------ memory

    fn rom_byte(&self, addr: u16) -> Option<u8> {
        for o in &self.layout.objects {
            if o.class == MemClass::Rom && addr >= o.addr && addr < o.addr + o.bytes {
                return o.rom_init.as_ref().map(|r| r[(addr - o.addr) as usize]);
            }
        }
        None
    }

    fn mem_read(&mut self, addr: u16) -> R<u8> {
        self.eff.last_mut().unwrap().reads.push(addr as u32);
        if self.strobed.contains(&addr) {
            return Err(Abort::Unspecified("read of a location last written by a strobe".into()));
        }
        if (addr as usize) < MEM_SIZE {
            Ok(self.mem[addr as usize])
        } else {
            match self.rom_byte(addr) {
                Some(b) => Ok(b),
                None => ub("read outside any object"),
            }
        }
    }

    fn mem_write(&mut self, addr: u16, b: u8) -> R<()> {
        self.eff.last_mut().unwrap().writes.push(addr as u32);
        self.note(addr as u64, b as u64);
        self.strobed.remove(&addr);
        if (addr as usize) < MEM_SIZE {
            self.mem[addr as usize] = b;
            Ok(())
        } else {
            ub("write outside RAM")
        }
    }

    /// is `addr` inside a char-typed object (what a char * may legally point to)?
    fn char_object_at(&self, addr: u16, for_write: bool) -> bool {
        if crate::layout::is_reg_addr(addr) {
            // only the declared targets of constant pointers are objects
            return self.globals.values().any(|g| matches!(g.decl.kind, VarKind::ConstPtr(a) if a as u16 == addr));
        }
        for g in self.globals.values() {
            if g.class == MemClass::Equ {
                continue;
            }
            if !matches!(g.decl.ty, Ty::U8 | Ty::I8) {
                continue;
            }
            if g.class == MemClass::Split {
                continue; // never reachable through a pointer in generated programs
            }
            if for_write && g.class == MemClass::Rom {
                continue;
            }
            let n = g.decl.len() as u16;
            if addr >= g.addr && addr < g.addr + n {
                return true;
            }
        }
        false
    }

    fn elem_addrs(g: &GInfo, idx: usize) -> (u16, Option<u16>) {
        // (low byte address, high byte address)
        let n = g.decl.len() as u16;
        let wide = g.decl.ty.bits() == 16;
        if g.decl.is_array() {
            if wide {
                (g.addr + idx as u16, Some(g.addr + n + idx as u16))
            } else {
                (g.addr + idx as u16, None)
            }
        } else if wide {
            (g.addr, Some(g.addr + 1))
        } else {
            (g.addr, None)
        }
    }

    // ------------------------------------------------------------ variables

    fn find_local(&self, name: &str) -> Option<(usize, usize)> {
        let f = self.frames.last()?;
        for (si, s) in f.scopes.iter().enumerate().rev() {
            if s.contains_key(name) {
                return Some((self.frames.len() - 1, si));
            }
        }
        None
    }

    /// type of `*p` / `p[i]`: the declared pointee of a constant pointer, plain char otherwise
    fn pointee_ty(&self, name: &str) -> Ty {
        match self.globals.get(name) {
            Some(g) if matches!(g.decl.kind, VarKind::ConstPtr(_)) => g.decl.ty,
            _ => self.char_ty(),
        }
    }

    fn char_ty(&self) -> Ty {
        if self.signed_char_default {
            Ty::I8
        } else {
            Ty::U8
        }
    }

    fn var_ty(&self, name: &str) -> R<(Ty, bool)> {
        if name == "X" || name == "Y" {
            return Ok((Ty::U8, false));
        }
        if let Some((fi, si)) = self.find_local(name) {
            let l = &self.frames[fi].scopes[si][name];
            return Ok((l.ty, l.is_array));
        }
        match self.globals.get(name) {
            Some(g) => Ok((g.decl.ty, g.decl.is_array())),
            None => Err(Abort::Unsupported(format!("unknown variable {}", name))),
        }
    }

    fn read_var_elem(&mut self, name: &str, idx: Option<i64>) -> R<V> {
        if name == "X" {
            self.eff.last_mut().unwrap().reads.push(KEY_X);
            return Ok(v_of(self.x as i32, Ty::U8));
        }
        if name == "Y" {
            self.eff.last_mut().unwrap().reads.push(KEY_Y);
            return Ok(v_of(self.y as i32, Ty::U8));
        }
        if let Some((fi, si)) = self.find_local(name) {
            let l = &self.frames[fi].scopes[si][name];
            let i = idx.unwrap_or(0);
            if i < 0 || i as usize >= l.vals.len() {
                return ub("local index out of bounds");
            }
            let key = KEY_LOCAL + l.id * 64 + i as u32;
            let ty = l.ty;
            let val = l.vals[i as usize];
            self.eff.last_mut().unwrap().reads.push(key);
            return match val {
                Some(v) => Ok(v_of(v, ty)),
                None => ub("read of an uninitialised local"),
            };
        }
        let (ty, lo, hi, konst) = {
            let g = match self.globals.get(name) {
                Some(g) => g,
                None => return Err(Abort::Unsupported(format!("unknown variable {}", name))),
            };
            match &g.decl.kind {
                VarKind::ConstScalar(v) => (g.decl.ty, 0, None, Some(*v)),
                VarKind::ConstPtr(a) => (Ty::Ptr, 0, None, Some(*a)),
                _ => {
                    let i = idx.unwrap_or(0);
                    if i < 0 || i as usize >= g.decl.len() {
                        return ub("index out of bounds");
                    }
                    let (lo, hi) = Self::elem_addrs(g, i as usize);
                    (g.decl.ty, lo, hi, None)
                }
            }
        };
        if let Some(k) = konst {
            return Ok(v_of(wrap_ty(k as i64, ty), ty));
        }
        let l = self.mem_read(lo)? as i64;
        let h = match hi {
            Some(a) => self.mem_read(a)? as i64,
            None => 0,
        };
        Ok(v_of(wrap_ty(l | h << 8, ty), ty))
    }

    fn write_var_elem(&mut self, name: &str, idx: Option<i64>, val: i32) -> R<()> {
        if name == "X" {
            self.eff.last_mut().unwrap().writes.push(KEY_X);
            self.note(KEY_X as u64, (val & 0xff) as u64);
            self.x = (val & 0xff) as u8;
            return Ok(());
        }
        if name == "Y" {
            self.eff.last_mut().unwrap().writes.push(KEY_Y);
            self.note(KEY_Y as u64, (val & 0xff) as u64);
            self.y = (val & 0xff) as u8;
            return Ok(());
        }
        if let Some((fi, si)) = self.find_local(name) {
            let l = self.frames[fi].scopes[si].get_mut(name).unwrap();
            let i = idx.unwrap_or(0);
            if i < 0 || i as usize >= l.vals.len() {
                return ub("local index out of bounds");
            }
            let stored = wrap_ty(val as i64, l.ty);
            l.vals[i as usize] = Some(stored);
            let key = KEY_LOCAL + l.id * 64 + i as u32;
            self.eff.last_mut().unwrap().writes.push(key);
            self.note(key as u64, stored as u32 as u64);
            return Ok(());
        }
        let (ty, lo, hi) = {
            let g = match self.globals.get(name) {
                Some(g) => g,
                None => return Err(Abort::Unsupported(format!("unknown variable {}", name))),
            };
            if g.class == MemClass::Rom || g.class == MemClass::Equ {
                return Err(Abort::Unsupported(format!("write to constant {}", name)));
            }
            let i = idx.unwrap_or(0);
            if i < 0 || i as usize >= g.decl.len() {
                return ub("index out of bounds");
            }
            let (lo, hi) = Self::elem_addrs(g, i as usize);
            (g.decl.ty, lo, hi)
        };
        let w = wrap(val as i64, ty.bits(), false);
        self.mem_write(lo, (w & 0xff) as u8)?;
        if let Some(a) = hi {
            self.mem_write(a, ((w >> 8) & 0xff) as u8)?;
        }
        Ok(())
    }

    // ------------------------------------------------------------ lvalues

    /// resolved location: (variable, index) or raw address
    fn resolve_lv(&mut self, lv: &LValue) -> R<Loc> {
        match lv {
            LValue::Var(n) => {
                let (ty, is_arr) = self.var_ty(n)?;
                if is_arr {
                    return Err(Abort::Unsupported(format!("array {} used as lvalue", n)));
                }
                Ok(Loc::Var(n.clone(), None, ty))
            }
            LValue::Index(n, e) => {
                let (ty, is_arr) = self.var_ty(n)?;
                let i = self.eval(e, 0)?;
                if is_arr {
                    Ok(Loc::Var(n.clone(), Some(i.v as i64), ty))
                } else if ty == Ty::Ptr {
                    let p = self.read_var_elem(n, None)?;
                    let addr = (p.v as i64 + i.v as i64) as i64;
                    if !(0..0x10000).contains(&addr) {
                        return ub("pointer arithmetic out of range");
                    }
                    Ok(Loc::Addr(addr as u16, self.pointee_ty(n)))
                } else {
                    Err(Abort::Unsupported(format!("subscript on scalar {}", n)))
                }
            }
            LValue::Deref(n) => {
                let p = self.read_var_elem(n, None)?;
                Ok(Loc::Addr(p.v as u16, self.pointee_ty(n)))
            }
        }
    }

    fn load_loc(&mut self, loc: &Loc) -> R<V> {
        match loc {
            Loc::Var(n, i, _) => self.read_var_elem(n, *i),
            Loc::Addr(a, ty) => {
                if !self.char_object_at(*a, false) {
                    return ub("dereference of a pointer outside any char object");
                }
                let b = self.mem_read(*a)?;
                Ok(v_of(wrap_ty(b as i64, *ty), *ty))
            }
        }
    }

    fn store_loc(&mut self, loc: &Loc, v: i32) -> R<()> {
        match loc {
            Loc::Var(n, i, _) => self.write_var_elem(n, *i, v),
            Loc::Addr(a, _) => {
                if !self.char_object_at(*a, true) {
                    return ub("store through a pointer outside any char object");
                }
                self.mem_write(*a, (v & 0xff) as u8)
            }
        }
    }

    fn loc_ty(&self, loc: &Loc) -> Ty {
        match loc {
            Loc::Var(_, _, t) => *t,
            Loc::Addr(_, t) => *t,
        }
    }

    // ------------------------------------------------------------ arithmetic rules

    fn combine_sign(&self, l: Sg, r: Sg) -> Sg {
        match (l, r) {
            (Sg::N, x) | (x, Sg::N) => x,
            (a, b) => match self.rd.sign {
                SignRule::Left => a,
                SignRule::Either => {
                    if a == Sg::S || b == Sg::S {
                        Sg::S
                    } else {
                        Sg::U
                    }
                }
                SignRule::Both => {
                    if a == Sg::S && b == Sg::S {
                        Sg::S
                    } else {
                        Sg::U
                    }
                }
            },
        }
    }

    fn iso_promote(v: V) -> V {
        if v.bits == 8 {
            V { v: v.v, bits: 16, sg: Sg::S }
        } else if v.sg == Sg::N {
            // literal: int if it fits, else unsigned
            if v.v > 32767 {
                V { v: v.v, bits: 16, sg: Sg::U }
            } else {
                V { v: v.v, bits: 16, sg: Sg::S }
            }
        } else {
            v
        }
    }

    fn lit(&self, v: i32) -> V {
        if self.rd.iso {
            Self::iso_promote(V { v: wrap(v as i64, 16, v <= 32767), bits: 16, sg: Sg::N })
        } else {
            V { v, bits: if (-128..=255).contains(&v) { 8 } else { 16 }, sg: Sg::N }
        }
    }

    fn decision(&mut self, b: bool) -> V {
        self.note(0xDC, b as u64);
        self.boolean(b)
    }

    fn boolean(&self, b: bool) -> V {
        if self.rd.iso {
            V { v: b as i32, bits: 16, sg: Sg::S }
        } else if self.rd.narrowest {
            V { v: b as i32, bits: 8, sg: Sg::U }
        } else {
            V { v: b as i32, bits: 8, sg: Sg::N }
        }
    }

    fn width(&self, l: V, r: Option<V>, ctx: u32) -> u32 {
        let mut w = l.bits;
        if let Some(r) = r {
            w = w.max(r.bits);
        }
        if self.rd.ctx {
            w = w.max(ctx);
        }
        w
    }

    fn binop(&self, op: BinOp, l: V, r: V, ctx: u32) -> R<V> {
        use BinOp::*;
        if self.excl_signed_rel_overflow && op.is_rel() && (l.sg == Sg::S || r.sg == Sg::S) {
            // the emitted CMP/SBC + BMI/BPL sequence ignores the overflow flag
            let w = l.bits.max(r.bits).max(8);
            // the operands may be swapped by the code generator: either difference counts
            let d = l.v as i64 - r.v as i64;
            let half = 1i64 << (w - 1);
            if d < -half || d >= half || -d < -half || -d >= half {
                return Err(Abort::Excluded("signed_rel_overflow"));
            }
        }
        if self.rd.iso {
            let lp = Self::iso_promote(l);
            let rp = Self::iso_promote(r);
            if matches!(op, Shl | Shr) {
                if r.v < 0 || r.v >= 16 {
                    return ub("shift count out of range");
                }
                let signed = lp.sg == Sg::S;
                let res = if op == Shl { wrap((lp.v as i64) << r.v, 16, signed) } else { lp.v >> r.v };
                return Ok(V { v: res, bits: 16, sg: lp.sg });
            }
            let unsigned = lp.sg == Sg::U || rp.sg == Sg::U;
            let a = wrap(lp.v as i64, 16, !unsigned) as i64;
            let b = wrap(rp.v as i64, 16, !unsigned) as i64;
            let sg = if unsigned { Sg::U } else { Sg::S };
            let res = match op {
                Add => a + b,
                Sub => a - b,
                Mul => a * b,
                Div => {
                    if b == 0 {
                        return ub("division by zero");
                    }
                    a / b
                }
                And => a & b,
                Or => a | b,
                Xor => a ^ b,
                Lt => return Ok(self.boolean(a < b)),
                Le => return Ok(self.boolean(a <= b)),
                Gt => return Ok(self.boolean(a > b)),
                Ge => return Ok(self.boolean(a >= b)),
                Eq => return Ok(self.boolean(a == b)),
                Ne => return Ok(self.boolean(a != b)),
                _ => unreachable!(),
            };
            return Ok(V { v: wrap(res, 16, !unsigned), bits: 16, sg });
        }
        // narrow readings
        if l.sg == Sg::N && r.sg == Sg::N {
            // constant folding: exact
            let a = l.v as i64;
            let b = r.v as i64;
            let res: i64 = match op {
                Add => a + b,
                Sub => a - b,
                Mul => a * b,
                Div => {
                    if b == 0 {
                        return ub("division by zero");
                    }
                    a / b
                }
                Shl => {
                    if !(0..16).contains(&b) {
                        return ub("shift count out of range");
                    }
                    a << b
                }
                Shr => {
                    if !(0..16).contains(&b) {
                        return ub("shift count out of range");
                    }
                    a >> b
                }
                And => a & b,
                Or => a | b,
                Xor => a ^ b,
                Lt => (a < b) as i64,
                Le => (a <= b) as i64,
                Gt => (a > b) as i64,
                Ge => (a >= b) as i64,
                Eq => (a == b) as i64,
                Ne => (a != b) as i64,
                _ => unreachable!(),
            };
            if !(-(1i64 << 31)..(1i64 << 31)).contains(&res) {
                return ub("constant overflow");
            }
            return Ok(V { v: res as i32, bits: if (-128..=255).contains(&res) { 8 } else { 16 }, sg: Sg::N });
        }
        if matches!(op, Shl | Shr) {
            if r.v < 0 || r.v >= 16 {
                return ub("shift count out of range");
            }
            let w = self.width(l, None, ctx);
            let signed = l.sg == Sg::S;
            let base = if l.sg == Sg::N { l.v as i64 } else { wrap(l.v as i64, w, signed) as i64 };
            let res = if op == Shl { wrap(base << r.v, w, signed) } else { (base >> r.v) as i32 };
            return Ok(V { v: res, bits: w, sg: if l.sg == Sg::N { Sg::U } else { l.sg } });
        }
        let sg = self.combine_sign(l.sg, r.sg);
        let signed = sg == Sg::S;
        let (l, r) = if self.rd.narrowest {
            // a literal adapts to an 8-bit typed operand by truncation; one that does not fit
            // that operand's type at all has no agreed meaning in a comparison
            let mut l = l;
            let mut r = r;
            if op.is_cmp() {
                for (lit, other) in [(l, r), (r, l)] {
                    if lit.sg == Sg::N && other.sg != Sg::N && other.bits == 8 {
                        let (lo, hi) = if other.sg == Sg::S { (-128, 127) } else { (0, 255) };
                        if lit.v < lo || lit.v > hi {
                            return ub("constant outside the range of the 8-bit operand it is compared with");
                        }
                    }
                }
            }
            if l.sg == Sg::N && r.sg != Sg::N && r.bits == 8 {
                l = V { v: wrap(l.v as i64, 8, signed), bits: 8, sg: Sg::N };
            }
            if r.sg == Sg::N && l.sg != Sg::N && l.bits == 8 {
                r = V { v: wrap(r.v as i64, 8, signed), bits: 8, sg: Sg::N };
            }
            (l, r)
        } else {
            (l, r)
        };
        if op.is_cmp() {
            let w = l.bits.max(r.bits);
            let a = wrap(l.v as i64, w, signed);
            let b = wrap(r.v as i64, w, signed);
            let res = match op {
                Lt => a < b,
                Le => a <= b,
                Gt => a > b,
                Ge => a >= b,
                Eq => a == b,
                Ne => a != b,
                _ => unreachable!(),
            };
            return Ok(self.boolean(res));
        }
        let w = self.width(l, Some(r), ctx);
        let a = l.v as i64;
        let b = r.v as i64;
        let res = match op {
            Add => a + b,
            Sub => a - b,
            Mul => a * b,
            Div => {
                if b == 0 {
                    return ub("division by zero");
                }
                a / b
            }
            And => a & b,
            Or => a | b,
            Xor => a ^ b,
            _ => unreachable!(),
        };
        Ok(V { v: wrap(res, w, signed), bits: w, sg })
    }

    fn unop(&self, op: UnOp, a: V, ctx: u32) -> V {
        match op {
            UnOp::LNot => self.boolean(a.v == 0),
            UnOp::Neg | UnOp::BNot => {
                if self.rd.iso {
                    let p = Self::iso_promote(a);
                    let r = if op == UnOp::Neg { -(p.v as i64) } else { !(p.v as i64) };
                    V { v: wrap(r, 16, p.sg == Sg::S), bits: 16, sg: p.sg }
                } else if a.sg == Sg::N {
                    let r = if op == UnOp::Neg { -(a.v as i64) } else { !(a.v as i64) };
                    V { v: r as i32, bits: if (-128..=255).contains(&r) { 8 } else { 16 }, sg: Sg::N }
                } else {
                    let w = self.width(a, None, ctx);
                    let r = if op == UnOp::Neg { -(a.v as i64) } else { !(a.v as i64) };
                    V { v: wrap(r, w, a.sg == Sg::S), bits: w, sg: a.sg }
                }
            }
        }
    }

    // ------------------------------------------------------------ expressions

    fn with_eff<T>(&mut self, f: impl FnOnce(&mut Self) -> R<T>) -> R<(T, Eff)> {
        self.eff.push(Eff::default());
        let r = f(self);
        let e = self.eff.pop().unwrap();
        r.map(|x| (x, e))
    }

    fn eval(&mut self, e: &Expr, ctx: u32) -> R<V> {
        self.tick()?;
        match e {
            Expr::Lit(v, _) => Ok(self.lit(*v)),
            Expr::Lv(lv) => {
                let loc = self.resolve_lv(lv)?;
                self.load_loc(&loc)
            }
            Expr::AddrOf(n) => {
                if self.find_local(n).is_some() {
                    return Err(Abort::Unsupported("address of a local".into()));
                }
                match self.globals.get(n) {
                    Some(g) if g.class != MemClass::Equ => Ok(V { v: g.addr as i32, bits: 16, sg: Sg::U }),
                    _ => Err(Abort::Unsupported(format!("address of {}", n))),
                }
            }
            Expr::Un(op, a) => {
                let c = if *op == UnOp::LNot { 0 } else { ctx };
                let v = self.eval(a, c)?;
                let r = self.unop(*op, v, ctx);
                if *op == UnOp::LNot {
                    self.note(0x21, r.v as u64);
                }
                Ok(r)
            }
            Expr::Bin(op, a, b) => match op {
                BinOp::LAnd => {
                    let l = self.eval(a, 0)?;
                    if l.v == 0 {
                        return Ok(self.decision(false));
                    }
                    self.note(0xA1, 1);
                    let r = self.eval(b, 0)?;
                    Ok(self.decision(r.v != 0))
                }
                BinOp::LOr => {
                    let l = self.eval(a, 0)?;
                    if l.v != 0 {
                        return Ok(self.decision(true));
                    }
                    self.note(0xA2, 0);
                    let r = self.eval(b, 0)?;
                    Ok(self.decision(r.v != 0))
                }
                _ => {
                    let c = if op.is_cmp() { 0 } else { ctx };
                    let cr = if matches!(op, BinOp::Shl | BinOp::Shr) { 0 } else { c };
                    let (l, el) = self.with_eff(|s| s.eval(a, c))?;
                    let (r, er) = self.with_eff(|s| s.eval(b, cr))?;
                    if el.conflicts(&er) {
                        return Err(Abort::Unspecified("operands of a binary operator interfere".into()));
                    }
                    let top = self.eff.last_mut().unwrap();
                    top.merge(el);
                    top.merge(er);
                    let v = self.binop(*op, l, r, ctx)?;
                    if op.is_cmp() {
                        // comparison outcomes are part of the history the readings must share
                        self.note(0xCE, v.v as u64);
                    }
                    Ok(v)
                }
            },
            Expr::Assign(op, lv, r) => {
                let (loc, el) = self.with_eff(|s| s.resolve_lv(lv))?;
                let ty = self.loc_ty(&loc);
                let (rv, er) = self.with_eff(|s| s.eval(r, ty.bits()))?;
                if el.conflicts(&er) {
                    return Err(Abort::Unspecified("assignment operands interfere".into()));
                }
                // the store itself must not race with a write in either operand
                let (val, es) = self.with_eff(|s| {
                    let val = match op {
                        None => rv,
                        Some(b) => {
                            let old = s.load_loc(&loc)?;
                            s.binop(*b, old, rv, ty.bits())?
                        }
                    };
                    let stored = wrap_ty(val.v as i64, ty);
                    s.store_loc(&loc, stored)?;
                    Ok(stored)
                })?;
                let store_keys: Vec<u32> = es.writes.clone();
                if store_keys.iter().any(|k| er.writes.contains(k) || el.writes.contains(k)) {
                    return Err(Abort::Unspecified("object modified twice in one expression".into()));
                }
                let top = self.eff.last_mut().unwrap();
                top.merge(el);
                top.merge(er);
                top.merge(es);
                Ok(v_of(val, ty))
            }
            Expr::IncDec(inc, prefix, lv) => {
                let loc = self.resolve_lv(lv)?;
                let ty = self.loc_ty(&loc);
                let old = self.load_loc(&loc)?;
                let new = wrap_ty(old.v as i64 + if *inc { 1 } else { -1 }, ty);
                self.store_loc(&loc, new)?;
                Ok(v_of(if *prefix { new } else { old.v }, ty))
            }
            Expr::Call(name, args) => {
                let f = match self.funcs.get(name) {
                    Some(f) => *f,
                    None => return Err(Abort::Unsupported(format!("unknown function {}", name))),
                };
                if f.params.len() != args.len() {
                    return Err(Abort::Unsupported("arity".into()));
                }
                let mut vals = vec![];
                let mut effs: Vec<Eff> = vec![];
                for (a, (_, pty)) in args.iter().zip(f.params.iter()) {
                    let (v, e) = self.with_eff(|s| s.eval(a, pty.bits()))?;
                    for prev in &effs {
                        if prev.conflicts(&e) {
                            return Err(Abort::Unspecified("call arguments interfere".into()));
                        }
                    }
                    effs.push(e);
                    vals.push(wrap_ty(v.v as i64, *pty));
                }
                for e in effs {
                    self.eff.last_mut().unwrap().merge(e);
                }
                let r = self.call(f, &vals)?;
                match (f.ret, r) {
                    (Some(t), Some(v)) => Ok(v_of(wrap_ty(v.v as i64, t), t)),
                    (Some(_), None) => ub("value of a function that returned nothing"),
                    (None, _) => Ok(V { v: 0, bits: 8, sg: Sg::N }),
                }
            }
            Expr::Ternary(c, a, b) => {
                let cv = self.eval(c, 0)?;
                self.note(0x7E, (cv.v != 0) as u64);
                // type of the result follows both arms; evaluate only the selected one
                let (sel, other) = if cv.v != 0 { (a, b) } else { (b, a) };
                let v = self.eval(sel, ctx)?;
                let oty = self.static_type(other);
                if self.rd.iso {
                    let p = Self::iso_promote(v);
                    let unsigned = p.sg == Sg::U || matches!(oty, Some(Ty::U16) | Some(Ty::Ptr));
                    Ok(V { v: wrap(p.v as i64, 16, !unsigned), bits: 16, sg: if unsigned { Sg::U } else { Sg::S } })
                } else {
                    let (ob, osg) = match oty {
                        Some(t) => (t.bits(), if t.signed() { Sg::S } else { Sg::U }),
                        None => (8, Sg::N),
                    };
                    let w = self.width(v, None, ctx).max(ob);
                    let sg = self.combine_sign(v.sg, osg);
                    if sg == Sg::N {
                        if self.rd.narrowest && (-128..=255).contains(&v.v) {
                            // the narrowest reading types a conditional of two constants as unsigned char
                            Ok(V { v: wrap(v.v as i64, 8, false), bits: 8, sg: Sg::U })
                        } else {
                            Ok(v)
                        }
                    } else {
                        Ok(V { v: wrap(v.v as i64, w, sg == Sg::S), bits: w, sg })
                    }
                }
            }
            Expr::Comma(a, b) => {
                self.eval(a, 0)?;
                self.eval(b, ctx)
            }
            Expr::SizeofVar(n) => {
                let (ty, _) = self.var_ty(n)?;
                let len = if let Some((fi, si)) = self.find_local(n) {
                    self.frames[fi].scopes[si][n.as_str()].vals.len()
                } else {
                    self.globals.get(n).map(|g| g.decl.len()).unwrap_or(1)
                };
                Ok(self.lit((ty.bytes() as usize * len) as i32))
            }
            Expr::SizeofType(t) => Ok(self.lit(t.bytes() as i32)),
        }
    }

    /// static type of an expression when it is a typed leaf (used for ?: result types);
    /// None for literals / untyped.
    fn static_type(&self, e: &Expr) -> Option<Ty> {
        match e {
            Expr::Lit(_, _) | Expr::SizeofVar(_) | Expr::SizeofType(_) => None,
            Expr::Lv(LValue::Var(n)) | Expr::Lv(LValue::Index(n, _)) => self.var_ty(n).ok().map(|(t, a)| {
                if t == Ty::Ptr && !a {
                    if matches!(e, Expr::Lv(LValue::Index(_, _))) {
                        self.char_ty()
                    } else {
                        Ty::Ptr
                    }
                } else {
                    t
                }
            }),
            Expr::Lv(LValue::Deref(p)) => Some(self.pointee_ty(p)),
            Expr::AddrOf(_) => Some(Ty::Ptr),
            Expr::Call(f, _) => self.funcs.get(f).and_then(|f| f.ret),
            Expr::Assign(_, lv, _) | Expr::IncDec(_, _, lv) => match lv {
                LValue::Var(n) | LValue::Index(n, _) => self.var_ty(n).ok().map(|x| x.0),
                LValue::Deref(p) => Some(self.pointee_ty(p)),
            },
            Expr::Un(UnOp::LNot, _) => None,
            Expr::Un(_, a) => self.static_type(a),
            Expr::Bin(op, a, b) => {
                if op.is_cmp() || matches!(op, BinOp::LAnd | BinOp::LOr) {
                    None
                } else {
                    let ta = self.static_type(a);
                    let tb = self.static_type(b);
                    match (ta, tb) {
                        (Some(x), Some(y)) => Some(if x.bits() >= y.bits() { x } else { y }),
                        (Some(x), None) | (None, Some(x)) => Some(x),
                        _ => None,
                    }
                }
            }
            Expr::Ternary(_, a, b) => self.static_type(a).or_else(|| self.static_type(b)),
            Expr::Comma(_, b) => self.static_type(b),
        }
    }

    // ------------------------------------------------------------ statements

    fn call(&mut self, f: &'a Func, args: &[i32]) -> R<Option<V>> {
        self.depth += 1;
        if self.depth > 24 {
            return Err(Abort::Unsupported("recursion".into()));
        }
        let mut scope = HashMap::new();
        for ((n, t), v) in f.params.iter().zip(args.iter()) {
            let id = self.next_local_id;
            self.next_local_id += 1;
            scope.insert(n.clone(), LocalVar { ty: *t, vals: vec![Some(*v)], is_array: false, id });
        }
        self.frames.push(Frame { scopes: vec![scope] });
        let r = self.exec_block(&f.body, true);
        self.frames.pop();
        self.depth -= 1;
        match r? {
            Flow::Return(v) => Ok(v),
            Flow::Normal => Ok(None),
            Flow::Goto(l) => Err(Abort::Unsupported(format!("goto {} not resolvable", l))),
            Flow::Break | Flow::Continue => Err(Abort::Unsupported("break/continue outside loop".into())),
        }
    }

    fn label_index(stmts: &[Stmt], label: &str) -> Option<usize> {
        stmts.iter().position(|s| matches!(s, Stmt::Label(l, _) if l == label))
    }

    fn exec_block(&mut self, stmts: &'a [Stmt], new_scope: bool) -> R<Flow> {
        if new_scope {
            self.frames.last_mut().unwrap().scopes.push(HashMap::new());
        }
        let r = self.exec_list(stmts);
        if new_scope {
            self.frames.last_mut().unwrap().scopes.pop();
        }
        r
    }

    fn exec_list(&mut self, stmts: &'a [Stmt]) -> R<Flow> {
        let mut i = 0;
        while i < stmts.len() {
            match self.exec(&stmts[i])? {
                Flow::Normal => i += 1,
                Flow::Goto(l) => match Self::label_index(stmts, &l) {
                    Some(j) => {
                        self.tick()?;
                        i = j
                    }
                    None => return Ok(Flow::Goto(l)),
                },
                other => return Ok(other),
            }
        }
        Ok(Flow::Normal)
    }

    fn cond(&mut self, e: &Expr) -> R<bool> {
        let b = self.full_expr_ctx(e, 0)?.v != 0;
        self.note(0xC0, b as u64);
        Ok(b)
    }

    fn full_expr(&mut self, e: &Expr) -> R<V> {
        self.full_expr_ctx(e, 0)
    }

    /// Evaluate a full expression. Its effects are forgotten at top level (main) and handed
    /// to the enclosing expression when we are inside a callee (the call is part of one).
    fn full_expr_ctx(&mut self, e: &Expr, ctx: u32) -> R<V> {
        let (v, eff) = self.with_eff(|s| s.eval(e, ctx))?;
        if self.depth > 1 {
            self.eff.last_mut().unwrap().merge(eff);
        }
        Ok(v)
    }

    fn exec(&mut self, s: &'a Stmt) -> R<Flow> {
        self.tick()?;
        if !matches!(s, Stmt::Load(_) | Stmt::Store(_) | Stmt::Strobe(_) | Stmt::Csleep(_) | Stmt::Empty | Stmt::Label(_, _)) {
            self.acc_valid = false;
        }
        match s {
            Stmt::Expr(e) => {
                self.full_expr(e)?;
                Ok(Flow::Normal)
            }
            Stmt::Decl(d) => {
                let id = self.next_local_id;
                self.next_local_id += 1;
                let n = d.len();
                let lv = LocalVar { ty: d.ty, vals: vec![None; n], is_array: d.is_array(), id };
                // the initialiser is evaluated with the new name already in scope (as in C)
                self.frames.last_mut().unwrap().scopes.last_mut().unwrap().insert(d.name.clone(), lv);
                if let Some(e) = &d.init {
                    if crate::excl::mentions(e, &d.name) {
                        // `char v = ... v ...`: reads (or writes) the new, indeterminate object
                        return ub("initialiser refers to the variable being declared");
                    }
                    let v = self.full_expr_ctx(e, d.ty.bits())?;
                    self.write_var_elem(&d.name, None, wrap_ty(v.v as i64, d.ty))?;
                }
                Ok(Flow::Normal)
            }
            Stmt::Block(b) => self.exec_block(b, true),
            Stmt::If(c, a, b) => {
                if self.cond(c)? {
                    self.exec(a)
                } else if let Some(b) = b {
                    self.exec(b)
                } else {
                    Ok(Flow::Normal)
                }
            }
            Stmt::While(c, b) => {
                loop {
                    if !self.cond(c)? {
                        break;
                    }
                    match self.exec(b)? {
                        Flow::Normal | Flow::Continue => {}
                        Flow::Break => break,
                        other => return Ok(other),
                    }
                    self.tick()?;
                }
                Ok(Flow::Normal)
            }
            Stmt::DoWhile(b, c) => {
                loop {
                    match self.exec(b)? {
                        Flow::Normal | Flow::Continue => {}
                        Flow::Break => break,
                        other => return Ok(other),
                    }
                    if !self.cond(c)? {
                        break;
                    }
                    self.tick()?;
                }
                Ok(Flow::Normal)
            }
            Stmt::For(i, c, u, b) => {
                if let Some(i) = i {
                    self.full_expr(i)?;
                }
                loop {
                    if let Some(c) = c {
                        if !self.cond(c)? {
                            break;
                        }
                    }
                    match self.exec(b)? {
                        Flow::Normal | Flow::Continue => {}
                        Flow::Break => break,
                        other => return Ok(other),
                    }
                    if let Some(u) = u {
                        self.full_expr(u)?;
                    }
                    self.tick()?;
                }
                Ok(Flow::Normal)
            }
            Stmt::Switch(e, cases, default) => {
                let v = self.full_expr(e)?;
                let mut start: Option<usize> = None;
                'outer: for (ci, c) in cases.iter().enumerate() {
                    for l in &c.labels {
                        let lit = self.lit(*l);
                        if self.binop(BinOp::Eq, v, lit, 0)?.v != 0 {
                            start = Some(ci);
                            break 'outer;
                        }
                    }
                }
                let run_default = start.is_none();
                self.note(0x5C, start.map(|x| x as u64 + 1).unwrap_or(0));
                // one scope for the whole switch body
                self.frames.last_mut().unwrap().scopes.push(HashMap::new());
                let mut flow = Flow::Normal;
                let mut res: R<()> = Ok(());
                if let Some(st) = start {
                    'run: for c in &cases[st..] {
                        match self.exec_list(&c.body) {
                            Ok(Flow::Normal) => {}
                            Ok(f) => {
                                flow = f;
                                break 'run;
                            }
                            Err(e) => {
                                res = Err(e);
                                break 'run;
                            }
                        }
                    }
                }
                if res.is_ok() && matches!(flow, Flow::Normal) && (run_default || start.is_some()) {
                    if let Some(d) = default {
                        match self.exec_list(d) {
                            Ok(f) => flow = f,
                            Err(e) => res = Err(e),
                        }
                    }
                }
                self.frames.last_mut().unwrap().scopes.pop();
                res?;
                match flow {
                    Flow::Break => Ok(Flow::Normal),
                    other => Ok(other),
                }
            }
            Stmt::Break => Ok(Flow::Break),
            Stmt::Continue => Ok(Flow::Continue),
            Stmt::Goto(l) => Ok(Flow::Goto(l.clone())),
            Stmt::Label(_, s) => self.exec(s),
            Stmt::Return(None) => Ok(Flow::Return(None)),
            Stmt::Return(Some(e)) => {
                let ret = self.current_ret_bits();
                let v = self.full_expr_ctx(e, ret)?;
                self.note(0x2E, (v.v & 0xff) as u64);
                Ok(Flow::Return(Some(v)))
            }
            Stmt::Empty => Ok(Flow::Normal),
            Stmt::Asm(t, _) => {
                self.events.push(Event::Asm(t.clone()));
                self.asm_effect(t)?;
                Ok(Flow::Normal)
            }
            Stmt::Csleep(n) => {
                self.events.push(Event::Csleep(*n));
                Ok(Flow::Normal)
            }
            Stmt::Load(e) => {
                // an explicit read: the value goes to the (ghost) accumulator
                if let Expr::Lv(lv) = e {
                    let loc = self.resolve_lv(lv)?;
                    let addr = self.loc_addr(&loc);
                    let v = self.load_loc(&loc)?;
                    if let Some(a) = addr {
                        self.events.push(Event::Load(a));
                    }
                    self.ghost_acc = Some((v.v & 0xff) as u8);
                } else {
                    let v = self.full_expr(e)?;
                    self.ghost_acc = Some((v.v & 0xff) as u8);
                }
                self.acc_valid = true;
                Ok(Flow::Normal)
            }
            Stmt::Store(lv) => {
                let loc = self.resolve_lv(lv)?;
                if let Some(a) = self.loc_addr(&loc) {
                    self.events.push(Event::Store(a));
                }
                if self.acc_valid {
                    let v = self.ghost_acc.unwrap_or(0);
                    self.store_loc(&loc, v as i32)?;
                } else {
                    // value of A is not defined by the source: the variable becomes unspecified
                    if let Loc::Var(n, _, _) = &loc {
                        if !self.unspecified.contains(n) {
                            self.unspecified.push(n.clone());
                        }
                    }
                    self.store_loc(&loc, 0)?;
                    if let Some(a) = self.loc_addr(&loc) {
                        // the location now holds an unspecified value: reading it back is outside the domain
                        self.strobed.insert(a);
                        let names: Vec<String> = self
                            .globals
                            .iter()
                            .filter(|(_, g)| matches!(g.decl.kind, VarKind::ConstPtr(p) if p as u16 == a))
                            .map(|(n, _)| n.clone())
                            .collect();
                        for n in names {
                            if !self.unspecified.contains(&n) {
                                self.unspecified.push(n);
                            }
                        }
                    }
                }
                Ok(Flow::Normal)
            }
            Stmt::Strobe(lv) => {
                let loc = self.resolve_lv(lv)?;
                if let Some(a) = self.loc_addr(&loc) {
                    self.events.push(Event::Strobe(a));
                    self.strobed.insert(a);
                }
                // a strobe writes an unspecified value
                if let Loc::Var(n, _, _) = &loc {
                    if !self.unspecified.contains(n) {
                        self.unspecified.push(n.clone());
                    }
                }
                Ok(Flow::Normal)
            }
        }
    }

    fn loc_addr(&self, loc: &Loc) -> Option<u16> {
        match loc {
            Loc::Addr(a, _) => Some(*a),
            Loc::Var(n, i, _) => {
                let g = self.globals.get(n)?;
                match &g.decl.kind {
                    VarKind::ConstPtr(a) => Some(*a as u16),
                    VarKind::ConstScalar(_) => None,
                    _ => Some(Self::elem_addrs(g, i.unwrap_or(0) as usize).0),
                }
            }
        }
    }

    fn current_ret_bits(&self) -> u32 {
        8
    }

    /// effect of the inline-assembler menu on C-visible state
    fn asm_effect(&mut self, t: &str) -> R<()> {
        let up = t.trim().to_ascii_uppercase();
        let mut it = up.split_whitespace();
        let m = it.next().unwrap_or("");
        let orig_operand = t.trim().split_whitespace().nth(1).unwrap_or("").to_string();
        let imm = |s: &str| -> Option<i32> { s.strip_prefix('#').and_then(|x| x.parse::<i32>().ok()) };
        if up.starts_with(';') {
            // an assembler comment
            return Ok(());
        }
        match m {
            "NOP" => {}
            "LDX" => {
                if let Some(v) = imm(&orig_operand) {
                    self.x = v as u8;
                } else {
                    let v = self.read_var_elem(&orig_operand, None)?;
                    self.x = v.v as u8;
                }
            }
            "LDY" => {
                if let Some(v) = imm(&orig_operand) {
                    self.y = v as u8;
                } else {
                    let v = self.read_var_elem(&orig_operand, None)?;
                    self.y = v.v as u8;
                }
            }
            "INX" => self.x = self.x.wrapping_add(1),
            "INY" => self.y = self.y.wrapping_add(1),
            "DEX" => self.x = self.x.wrapping_sub(1),
            "DEY" => self.y = self.y.wrapping_sub(1),
            "LDA" | "CLC" | "SEC" => {}
            "INC" | "DEC" => {
                let v = self.read_var_elem(&orig_operand, None)?;
                let n = if m == "INC" { v.v + 1 } else { v.v - 1 };
                self.write_var_elem(&orig_operand, None, n & 0xff)?;
                // a read-modify-write of the operand: one read and one write in the access trace
                if let Some(a) = self.globals.get(&orig_operand).map(|g| Self::elem_addrs(g, 0).0) {
                    self.events.push(Event::Load(a));
                    self.events.push(Event::Store(a));
                }
            }
            "STX" => {
                let x = self.x;
                self.write_var_elem(&orig_operand, None, x as i32)?;
            }
            "STY" => {
                let y = self.y;
                self.write_var_elem(&orig_operand, None, y as i32)?;
            }
            _ => return Err(Abort::Unsupported(format!("asm `{}` has no reference semantics", t))),
        }
        self.acc_valid = false;
        Ok(())
    }

    pub fn run_main(mut self) -> R<FinalState> {
        let f = match self.funcs.get("main") {
            Some(f) => *f,
            None => return Err(Abort::Unsupported("no main".into())),
        };
        self.call(f, &[])?;
        let mut globals = BTreeMap::new();
        for g in &self.prog.globals {
            if let Some(gi) = self.globals.get(&g.name) {
                if let VarKind::ConstPtr(a) = &g.kind {
                    globals.insert(g.name.clone(), vec![self.mem[*a as usize]]);
                    continue;
                }
                if gi.class == MemClass::Rom || gi.class == MemClass::Equ {
                    continue;
                }
                let o = self.layout.object(&g.name).unwrap();
                let b: Vec<u8> = (0..o.bytes as usize).map(|i| self.mem[o.addr as usize + i]).collect();
                globals.insert(g.name.clone(), b);
            }
        }
        Ok(FinalState {
            globals,
            x: self.x,
            y: self.y,
            steps: self.steps,
            events: self.events,
            unspecified: self.unspecified,
            changed: false,
            trace: self.trace,
        })
    }

    pub fn set_signed_char_default(&mut self, s: bool) {
        self.signed_char_default = s;
    }
}

enum Loc {
    Var(String, Option<i64>, Ty),
    Addr(u16, Ty),
}

#[derive(Debug, Clone, PartialEq)]
pub enum Verdict {
    /// all readings agree on this final state
    Agreed(FinalState),
    /// a dynamic exclusion rule applies to this execution
    Excluded(&'static str),
    /// readings disagree (different final states, or only some abort)
    Ambiguous,
    /// every reading hit undefined / unspecified behaviour
    Undefined(String),
    Timeout,
    Unsupported(String),
}

/// Run all readings; return the common final state if they agree.
pub fn run_all(prog: &Program, layout: &Layout, init: &Init, max_steps: u64, readings: &[Reading]) -> Verdict {
    run_all_sc(prog, layout, init, max_steps, readings, false)
}

pub fn run_all_sc(
    prog: &Program,
    layout: &Layout,
    init: &Init,
    max_steps: u64,
    readings: &[Reading],
    signed_chars: bool,
) -> Verdict {
    run_all_ex(prog, layout, init, max_steps, readings, signed_chars, false)
}

pub fn run_all_ex(
    prog: &Program,
    layout: &Layout,
    init: &Init,
    max_steps: u64,
    readings: &[Reading],
    signed_chars: bool,
    excl_signed_rel_overflow: bool,
) -> Verdict {
    let mut first: Option<FinalState> = None;
    let mut aborts: Vec<Abort> = vec![];
    let mut finals = 0;
    for rd in readings {
        let it = match Interp::new(prog, layout, *rd, init, max_steps) {
            Ok(mut i) => {
                i.set_signed_char_default(signed_chars);
                i.excl_signed_rel_overflow = excl_signed_rel_overflow;
                i
            }
            Err(Abort::Unsupported(s)) => return Verdict::Unsupported(s),
            Err(_) => return Verdict::Unsupported("init".into()),
        };
        match it.run_main() {
            Ok(fs) => {
                finals += 1;
                match &first {
                    None => first = Some(fs),
                    Some(f0) => {
                        if f0.globals != fs.globals || f0.x != fs.x || f0.y != fs.y || f0.events != fs.events || f0.trace != fs.trace
                        {
                            return Verdict::Ambiguous;
                        }
                    }
                }
            }
            Err(Abort::Unsupported(s)) => return Verdict::Unsupported(s),
            Err(Abort::Excluded(r)) => return Verdict::Excluded(r),
            Err(a) => aborts.push(a),
        }
    }
    if finals > 0 && !aborts.is_empty() {
        return Verdict::Ambiguous;
    }
    if finals == 0 {
        if aborts.iter().all(|a| *a == Abort::Timeout) {
            return Verdict::Timeout;
        }
        return Verdict::Undefined(format!("{:?}", aborts.first()));
    }
    Verdict::Agreed(first.unwrap())
}
