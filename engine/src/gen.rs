//! Structured generator of programs of the cc6502 C subset (construction, not rejection).
use crate::ast::*;
use crate::exec::{Init, InitVal};
use crate::pbt::G;
use std::collections::HashSet;

/// Active exclusion rules (each tied to one known finding, see known_findings.json).
#[derive(Debug, Clone, Default)]
pub struct Excl {
    pub active: std::collections::BTreeSet<String>,
}

impl Excl {
    pub fn has(&self, name: &str) -> bool {
        self.active.contains(name)
    }
    pub fn from(names: &[&str]) -> Excl {
        Excl { active: names.iter().map(|s| s.to_string()).collect() }
    }
}

#[derive(Debug, Clone)]
pub struct GenCfg {
    pub max_helpers: usize,
    pub max_stmts: usize,
    pub max_expr_depth: u32,
    pub max_nest: u32,
    pub shorts: bool,
    pub pointers: bool,
    pub arrays: bool,
    pub calls: bool,
    pub loops: bool,
    pub switch: bool,
    pub goto: bool,
    pub locals: bool,
    pub signed: bool,
    /// probability (per mille) that a RAM variable gets a split-port qualifier
    pub split_permille: u32,
    pub split_qual: MemQual,
    pub ramchip_permille: u32,
    pub hw: bool,
    pub asm_menu: bool,
    /// statements that put the low byte of an array address into a register (differential checks only)
    pub addr_low_byte: bool,
    /// function names made of words joined by underscores (two caller/callee pairs can then read alike once joined)
    pub word_names: bool,
    pub long_bodies: bool,
    pub opt_stress: bool,
    pub inline_permille: u32,
    pub helpers_must_exist: bool,
    pub interrupts: bool,
    pub unused_funcs: bool,
    pub protos: bool,
    /// probability (per mille) that a helper is forced to be `void f()` without parameters
    pub simple_helper_permille: u32,
    /// functions may call themselves (only for checks that never execute the program)
    pub self_calls: bool,
    /// probability (per mille) that a helper is placed in a ROM bank other than 0
    pub banked_permille: u32,
    pub excl: Excl,
}

impl Default for GenCfg {
    fn default() -> Self {
        GenCfg {
            max_helpers: 3,
            max_stmts: 6,
            max_expr_depth: 2,
            max_nest: 3,
            shorts: true,
            pointers: true,
            arrays: true,
            calls: true,
            loops: true,
            switch: true,
            goto: true,
            locals: true,
            signed: true,
            split_permille: 0,
            split_qual: MemQual::Superchip,
            ramchip_permille: 100,
            hw: false,
            asm_menu: false,
            addr_low_byte: false,
            word_names: false,
            long_bodies: false,
            opt_stress: false,
            inline_permille: 150,
            helpers_must_exist: false,
            interrupts: false,
            unused_funcs: false,
            protos: false,
            simple_helper_permille: 0,
            self_calls: false,
            banked_permille: 0,
            excl: Excl::default(),
        }
    }
}

#[derive(Debug, Clone)]
struct LVar {
    name: String,
    ty: Ty,
    /// 0 = scalar, n = array length
    arr: usize,
}

struct FnCtx {
    scopes: Vec<Vec<LVar>>,
    params: Vec<LVar>,
    /// variables that must not be modified (loop counters)
    protected: HashSet<String>,
    in_loop: u32,
    in_for: u32,
    in_switch: u32,
    no_decl: u32,
    no16: u32,
    ret: Option<Ty>,
    labels: u32,
    nest: u32,
    is_main: bool,
    /// variables read or written in the full expression under construction
    touched: HashSet<String>,
    value_calls_in_expr: u32,
    in_condition: bool,
    in_args: u32,
    dest16: bool,
    /// index of this function among helpers (callable: helpers[..idx])
    idx: usize,
    /// ROM bank of the function under construction
    bank: u32,
    /// the function under construction is inline (it cannot call itself)
    inline: bool,
}

pub struct ProgGen<'g, 'r> {
    pub g: &'g mut G<'r>,
    pub cfg: GenCfg,
    globals: Vec<VarDecl>,
    helpers: Vec<Func>,
    name_ctr: u32,
    pub labels: Vec<&'static str>,
    /// the previous function ended with a statement that leaves the flags describing this global
    handover: Option<String>,
    /// long bodies: a helper made of one `asm` statement with a declared size, and that size
    pad_helper: Option<Func>,
    /// hardware statements: inline helpers without parameters whose first statement is `load(hvN)` (index, hvN)
    load_first: Vec<(usize, String)>,
    /// the same as a dedicated helper placed before all functions (name, hvN)
    line_helper: Option<(Func, String)>,
    /// helpers that start by comparing their last (unsigned char) parameter with a constant (index, constant)
    param_compare: Vec<(usize, i32)>,
    /// optimizer stress: an inline function that only compares its parameter with a constant (function, constant)
    cmp_helper: Option<(Func, i32)>,
    /// helpers that contain a call to themselves
    self_callers: HashSet<usize>,
}

const ARR_SIZES: [usize; 5] = [2, 3, 4, 8, 16];

fn is8(t: Ty) -> bool {
    t.bits() == 8
}

impl<'g, 'r> ProgGen<'g, 'r> {
    pub fn new(g: &'g mut G<'r>, cfg: GenCfg) -> Self {
        ProgGen { g, cfg, globals: vec![], helpers: vec![], name_ctr: 0, labels: vec![], handover: None, pad_helper: None, load_first: vec![], line_helper: None, param_compare: vec![], cmp_helper: None, self_callers: HashSet::new() }
    }

    fn label(&mut self, l: &'static str) {
        if !self.labels.contains(&l) {
            self.labels.push(l);
        }
    }

    fn fresh(&mut self, prefix: &str) -> String {
        self.name_ctr += 1;
        format!("{}{}", prefix, self.name_ctr)
    }

    fn mem_qual(&mut self, allow_split: bool) -> MemQual {
        if allow_split && self.cfg.split_permille > 0 && self.g.chance(self.cfg.split_permille, 1000) {
            return self.cfg.split_qual;
        }
        if self.cfg.ramchip_permille > 0 && self.g.chance(self.cfg.ramchip_permille, 1000) {
            return MemQual::Ramchip;
        }
        MemQual::Default
    }

    fn gen_globals(&mut self) {
        let n8 = 2 + self.g.below(4);
        for _ in 0..n8 {
            let ty = if self.cfg.signed && self.g.chance(1, 3) { Ty::I8 } else { Ty::U8 };
            let name = self.fresh(if ty == Ty::I8 { "sc" } else { "uc" });
            let mut d = VarDecl::scalar(&name, ty);
            d.explicit_sign = ty == Ty::U8 && self.g.chance(1, 2);
            d.mem = self.mem_qual(true);
            self.globals.push(d);
        }
        if self.cfg.shorts {
            let n16 = 1 + self.g.below(3);
            for _ in 0..n16 {
                let ty = if self.g.chance(1, 3) { Ty::U16 } else { Ty::I16 };
                let name = self.fresh(if ty == Ty::U16 { "us" } else { "ss" });
                let mut d = VarDecl::scalar(&name, ty);
                d.mem = self.mem_qual(true);
                self.globals.push(d);
            }
        }
        if self.cfg.arrays {
            let na = 1 + self.g.below(3);
            for _ in 0..na {
                let n = *self.g.pick(&ARR_SIZES);
                let wide = self.cfg.shorts && self.g.chance(1, 4);
                let ty = if wide {
                    if self.g.chance(1, 3) {
                        Ty::U16
                    } else {
                        Ty::I16
                    }
                } else if self.cfg.signed && self.g.chance(1, 4) {
                    Ty::I8
                } else {
                    Ty::U8
                };
                let name = self.fresh(if wide { "sar" } else { "ar" });
                let mut d = VarDecl::array(&name, ty, n);
                d.mem = self.mem_qual(true);
                self.globals.push(d);
            }
            // const tables
            let nt = self.g.below(3);
            for _ in 0..nt {
                let n = *self.g.pick(&ARR_SIZES);
                let wide = self.cfg.shorts && self.g.chance(1, 4);
                let ty = if wide { Ty::I16 } else { Ty::U8 };
                let vals: Vec<i32> = (0..n)
                    .map(|_| if wide { self.g.range(-2000, 2000) as i32 } else { self.g.range(0, 255) as i32 })
                    .collect();
                let name = self.fresh(if wide { "stb" } else { "tb" });
                self.globals.push(VarDecl {
                    name,
                    ty,
                    kind: VarKind::ConstTable(vals),
                    mem: MemQual::Default,
                    explicit_sign: false,
                    init: None,
                });
            }
        }
        if self.g.chance(1, 3) {
            let name = self.fresh("K");
            let v = self.g.range(0, 255) as i32;
            self.globals.push(VarDecl {
                name,
                ty: Ty::U8,
                kind: VarKind::ConstScalar(v),
                mem: MemQual::Default,
                explicit_sign: false,
                init: None,
            });
        }
        if self.cfg.hw {
            // dedicated objects touched only by load/store/strobe statements: every access to them
            // in the emulator's trace is an explicit one
            for k in 1..=3 {
                let mut d = VarDecl::scalar(&format!("hv{}", k), Ty::U8);
                if k == 3 {
                    d.mem = MemQual::Ramchip;
                }
                self.globals.push(d);
            }
            for k in 1..=2 {
                let addr = if k == 1 { 0xE8 } else { 0xF80 };
                self.globals.push(VarDecl {
                    name: format!("HR{}", k),
                    ty: Ty::U8,
                    kind: VarKind::ConstPtr(addr),
                    mem: MemQual::Default,
                    explicit_sign: false,
                    init: None,
                });
            }
        }
        if self.cfg.pointers {
            if self.g.chance(1, 2) {
                let name = self.fresh("pt");
                self.globals.push(VarDecl {
                    name,
                    ty: Ty::Ptr,
                    kind: VarKind::Scalar,
                    mem: MemQual::Default,
                    explicit_sign: false,
                    init: None,
                });
            }
            // zero to two "hardware registers": constant pointers into the register areas of the
            // memory map, one below and one above $100, in either order
            let n = self.g.weighted(&[5, 3, 3]);
            let mut used = std::collections::HashSet::new();
            for _ in 0..n {
                let name = self.fresh("R");
                let mut addr = if self.g.chance(1, 2) { 0xE0 + self.g.below(0x20) as i32 } else { 0xF00 + self.g.below(0x100) as i32 };
                while !used.insert(addr) {
                    addr = 0xF00 + self.g.below(0x100) as i32;
                }
                self.globals.push(VarDecl {
                    name,
                    ty: Ty::U8,
                    kind: VarKind::ConstPtr(addr),
                    mem: MemQual::Default,
                    explicit_sign: false,
                    init: None,
                });
            }
        }
    }

    // ------------------------------------------------------------------ variable choice

    fn visible_scalars(&self, fc: &FnCtx, want8: Option<bool>, writable: bool) -> Vec<(String, Ty)> {
        let mut v = vec![];
        let ok = |t: Ty| -> bool {
            match want8 {
                None => t != Ty::Ptr,
                Some(true) => is8(t),
                Some(false) => t.bits() == 16 && t != Ty::Ptr,
            }
        };
        let mut shadow: HashSet<String> = HashSet::new();
        for s in fc.scopes.iter().rev() {
            for l in s {
                if l.arr == 0 && ok(l.ty) && !shadow.contains(&l.name) {
                    v.push((l.name.clone(), l.ty));
                }
                shadow.insert(l.name.clone());
            }
        }
        for p in &fc.params {
            if ok(p.ty) && !shadow.contains(&p.name) {
                v.push((p.name.clone(), p.ty));
            }
            shadow.insert(p.name.clone());
        }
        for gl in &self.globals {
            if shadow.contains(&gl.name) || gl.name.starts_with("hv") {
                continue;
            }
            match gl.kind {
                VarKind::Scalar if ok(gl.ty) => v.push((gl.name.clone(), gl.ty)),
                VarKind::ConstScalar(_) if !writable && ok(gl.ty) => v.push((gl.name.clone(), gl.ty)),
                _ => {}
            }
        }
        if want8 != Some(false) {
            v.push(("X".into(), Ty::U8));
            v.push(("Y".into(), Ty::U8));
        }
        if writable {
            v.retain(|(n, _)| !fc.protected.contains(n));
        }
        v
    }

    fn arrays(&self, fc: &FnCtx, want8: Option<bool>, writable: bool) -> Vec<(String, Ty, usize)> {
        let mut v = vec![];
        for s in fc.scopes.iter().rev() {
            for l in s {
                if l.arr > 0 {
                    v.push((l.name.clone(), l.ty, l.arr));
                }
            }
        }
        for gl in &self.globals {
            match &gl.kind {
                VarKind::Array(n) => v.push((gl.name.clone(), gl.ty, *n)),
                VarKind::ConstTable(t) if !writable => v.push((gl.name.clone(), gl.ty, t.len())),
                _ => {}
            }
        }
        v.retain(|(_, t, _)| match want8 {
            None => true,
            Some(true) => is8(*t),
            Some(false) => !is8(*t),
        });
        v
    }

    fn ptr_vars(&self) -> Vec<String> {
        self.globals.iter().filter(|g| g.ty == Ty::Ptr && g.kind == VarKind::Scalar).map(|g| g.name.clone()).collect()
    }
    fn const_ptrs(&self) -> Vec<String> {
        self.globals
            .iter()
            .filter(|g| matches!(g.kind, VarKind::ConstPtr(_)) && !g.name.starts_with("HR"))
            .map(|g| g.name.clone())
            .collect()
    }
    fn is_split(&self, name: &str) -> bool {
        self.globals.iter().any(|g| g.name == name && matches!(g.mem, MemQual::Superchip | MemQual::Bank(_)))
    }

    fn literal(&mut self, want: Ty) -> Expr {
        let v: i32 = if is8(want) {
            match self.g.below(8) {
                0 => 0,
                1 => 1,
                2 => {
                    if want.signed() {
                        127
                    } else {
                        255
                    }
                }
                3 => {
                    if want.signed() {
                        -1
                    } else {
                        128
                    }
                }
                4 => self.g.range(2, 9) as i32,
                _ => {
                    if want.signed() {
                        self.g.range(-128, 127) as i32
                    } else {
                        self.g.range(0, 255) as i32
                    }
                }
            }
        } else {
            match self.g.below(8) {
                0 => 0,
                1 => 1,
                2 => 255,
                3 => 256,
                4 => {
                    if want.signed() {
                        -1
                    } else {
                        0x8000
                    }
                }
                5 => self.g.range(2, 300) as i32,
                _ => {
                    if want.signed() {
                        self.g.range(-32768, 32767) as i32
                    } else {
                        self.g.range(0, 65535) as i32
                    }
                }
            }
        };
        let fmt = if v < 0 {
            LitFmt::Dec
        } else {
            match self.g.below(6) {
                0 => LitFmt::Hex,
                1 if v > 0 => LitFmt::Oct,
                2 if (32..127).contains(&v) => LitFmt::Char,
                _ => LitFmt::Dec,
            }
        };
        Expr::Lit(v, fmt)
    }

    fn index_expr(&mut self, fc: &mut FnCtx, n: usize) -> Expr {
        // a computed subscript (kept inside the array by a mask): the index goes through the accumulator
        if n >= 2 && self.g.chance(1, 12) {
            let c: Vec<(String, Ty)> = self
                .visible_scalars(fc, Some(true), false)
                .into_iter()
                .filter(|(nm, t)| *t == Ty::U8 && !nm.starts_with('K') && nm != "X" && nm != "Y")
                .collect();
            if !c.is_empty() {
                let (name, _) = self.g.pick(&c).clone();
                fc.touched.insert(name.clone());
                let p2 = if n.is_power_of_two() { n } else { n.next_power_of_two() / 2 };
                return if p2 >= 4 && self.g.chance(1, 2) {
                    // (v & (p2/2 - 1)) + 1 stays below p2
                    Expr::bin(BinOp::Add, Expr::bin(BinOp::And, Expr::var(&name), Expr::lit(p2 as i32 / 2 - 1)), Expr::lit(1))
                } else {
                    Expr::bin(BinOp::And, Expr::var(&name), Expr::lit(p2 as i32 - 1))
                };
            }
        }
        match self.g.weighted(&[5, 4, 4, 1]) {
            0 => Expr::lit(self.g.below(n) as i32),
            1 => {
                fc.touched.insert("X".into());
                Expr::var("X")
            }
            2 => {
                fc.touched.insert("Y".into());
                Expr::var("Y")
            }
            _ => {
                // (const scalars are not used as indices: their value is not bounded by the array)
                let c: Vec<(String, Ty)> = self
                    .visible_scalars(fc, Some(true), false)
                    .into_iter()
                    .filter(|(n, t)| *t == Ty::U8 && !n.starts_with('K'))
                    .collect();
                if c.is_empty() {
                    Expr::lit(self.g.below(n) as i32)
                } else {
                    let (name, _) = self.g.pick(&c).clone();
                    fc.touched.insert(name.clone());
                    Expr::var(&name)
                }
            }
        }
    }

    /// a readable leaf of roughly the wanted type
    fn leaf(&mut self, fc: &mut FnCtx, want: Ty) -> Expr {
        let want8 = is8(want);
        let w = [
            30u32,                                                 // literal
            45,                                                    // scalar of the wanted width
            if want8 { 4 } else { 14 },                            // scalar of the other width
            if self.cfg.arrays { 14 } else { 0 },                  // array element
            if self.cfg.pointers && want8 { 5 } else { 0 },        // *p, p[Y], *R
            1,                                                     // sizeof
        ];
        match self.g.weighted(&w) {
            0 => self.literal(want),
            k @ (1 | 2) => {
                let other = k == 2;
                let mut c = self.visible_scalars(fc, Some(want8 != other), false);
                if c.is_empty() {
                    c = self.visible_scalars(fc, None, false);
                }
                let (name, _) = self.g.pick(&c).clone();
                fc.touched.insert(name.clone());
                Expr::var(&name)
            }
            3 => {
                let mut c = self.arrays(fc, Some(want8), false);
                if c.is_empty() {
                    c = self.arrays(fc, None, false);
                }
                if c.is_empty() {
                    return self.literal(want);
                }
                let (name, _, n) = self.g.pick(&c).clone();
                let idx = self.index_expr(fc, n);
                fc.touched.insert(name.clone());
                Expr::Lv(LValue::Index(name, Box::new(idx)))
            }
            4 => {
                let ps = self.ptr_vars();
                let rs = self.const_ptrs();
                if !ps.is_empty() && (rs.is_empty() || self.g.chance(2, 3)) {
                    let p = self.g.pick(&ps).clone();
                    fc.touched.insert(p.clone());
                    fc.touched.insert("*".into());
                    if self.g.chance(1, 2) {
                        Expr::Lv(LValue::Deref(p))
                    } else {
                        fc.touched.insert("Y".into());
                        Expr::Lv(LValue::Index(p, Box::new(Expr::var("Y"))))
                    }
                } else if !rs.is_empty() {
                    let r = self.g.pick(&rs).clone();
                    fc.touched.insert(r.clone());
                    Expr::Lv(LValue::Deref(r))
                } else {
                    self.literal(want)
                }
            }
            _ => {
                if self.g.chance(1, 2) {
                    Expr::SizeofType(*self.g.pick(&[Ty::U8, Ty::I16]))
                } else {
                    let names: Vec<String> = self.globals.iter().filter(|g| g.ty != Ty::Ptr && !g.name.starts_with("hv") && !matches!(g.kind, VarKind::ConstPtr(_) | VarKind::ConstScalar(_))).map(|g| g.name.clone()).collect();
                    if names.is_empty() {
                        self.literal(want)
                    } else {
                        Expr::SizeofVar(self.g.pick(&names).clone())
                    }
                }
            }
        }
    }

    /// the name of helper number `idx`
    fn func_name(&self, idx: usize) -> String {
        const WORDS: [&str; 8] = ["init", "sprite_init", "draw", "draw_sprite", "sprite", "draw_sprite_init", "a_b", "a"];
        if self.cfg.word_names && idx < WORDS.len() {
            WORDS[idx].to_string()
        } else {
            format!("f{}", idx)
        }
    }

    fn callable(&self, fc: &FnCtx, want_value: bool) -> Vec<usize> {
        let lim = if fc.is_main { self.helpers.len() } else { fc.idx.min(self.helpers.len()) };
        // code of a bank other than 0 may only call functions of its own bank
        (0..lim)
            .filter(|i| !self.helpers[*i].interrupt && (!want_value || self.helpers[*i].ret.is_some()) && (fc.bank == 0 || self.helpers[*i].bank == fc.bank))
            .collect()
    }

    fn call_expr(&mut self, fc: &mut FnCtx, fi: usize, depth: u32) -> Expr {
        let f = self.helpers[fi].clone();
        fc.in_args += 1;
        let mut args = vec![];
        for (_, t) in &f.params {
            let a = if *t == Ty::Ptr {
                let arrs: Vec<String> = self
                    .globals
                    .iter()
                    .filter(|g| matches!(g.kind, VarKind::Array(_)) && is8(g.ty) && !self.is_split(&g.name))
                    .map(|g| g.name.clone())
                    .collect();
                if arrs.is_empty() {
                    Expr::lit(0)
                } else {
                    Expr::AddrOf(self.g.pick(&arrs).clone())
                }
            } else {
                self.rvalue(fc, *t, depth.min(1))
            };
            args.push(a);
        }
        fc.in_args -= 1;
        // the callee may read/write any global: mark as touching everything
        fc.touched.insert("#call".into());
        if f.ret.is_some() {
            fc.value_calls_in_expr += 1;
        }
        Expr::Call(f.name.clone(), args)
    }

    /// an expression computing a value of (roughly) type `want`
    fn rvalue(&mut self, fc: &mut FnCtx, want: Ty, depth: u32) -> Expr {
        if is8(want) {
            self.expr8(fc, want, depth)
        } else {
            self.expr16(fc, want, depth)
        }
    }

    /// a leaf of exactly the wanted width (literal, scalar, array element, *p)
    fn leaf_w(&mut self, fc: &mut FnCtx, want: Ty) -> Expr {
        for _ in 0..6 {
            let e = self.leaf(fc, want);
            if self.width_of(fc, &e).map(|w| w == want.bits()).unwrap_or(true) {
                return e;
            }
        }
        self.literal(want)
    }

    fn width_of(&self, fc: &FnCtx, e: &Expr) -> Option<u32> {
        match e {
            Expr::Lit(_, _) | Expr::SizeofVar(_) | Expr::SizeofType(_) => None,
            Expr::Lv(LValue::Var(n)) => {
                if n == "X" || n == "Y" {
                    return Some(8);
                }
                for s in fc.scopes.iter().rev() {
                    if let Some(l) = s.iter().find(|l| &l.name == n) {
                        return Some(l.ty.bits());
                    }
                }
                if let Some(p) = fc.params.iter().find(|l| &l.name == n) {
                    return Some(p.ty.bits());
                }
                self.globals.iter().find(|g| &g.name == n).map(|g| g.ty.bits())
            }
            Expr::Lv(LValue::Index(n, _)) => {
                for s in fc.scopes.iter().rev() {
                    if let Some(l) = s.iter().find(|l| &l.name == n) {
                        return Some(l.ty.bits());
                    }
                }
                self.globals.iter().find(|g| &g.name == n).map(|g| if g.ty == Ty::Ptr { 8 } else { g.ty.bits() })
            }
            Expr::Lv(LValue::Deref(_)) => Some(8),
            _ => None,
        }
    }

    fn signed_of(&self, fc: &FnCtx, e: &Expr) -> Option<bool> {
        let name = match e {
            Expr::Lv(LValue::Var(n)) | Expr::Lv(LValue::Index(n, _)) => n,
            Expr::Lv(LValue::Deref(_)) => return Some(false),
            Expr::Lit(_, _) | Expr::SizeofVar(_) | Expr::SizeofType(_) => return Some(false),
            _ => return None,
        };
        if name == "X" || name == "Y" {
            return Some(false);
        }
        for s in fc.scopes.iter().rev() {
            if let Some(l) = s.iter().find(|l| &l.name == name) {
                return Some(l.ty.signed());
            }
        }
        if let Some(p) = fc.params.iter().find(|l| &l.name == name) {
            return Some(p.ty.signed());
        }
        self.globals.iter().find(|g| &g.name == name).map(|g| g.ty.signed())
    }

    /// 16-bit destination: the forms the compiler's 16-bit support handles
    fn expr16(&mut self, fc: &mut FnCtx, want: Ty, depth: u32) -> Expr {
        let t8 = if want.signed() && self.cfg.signed && self.g.chance(1, 3) { Ty::I8 } else { Ty::U8 };
        let shifts = !self.cfg.excl.has("shift_in_16bit_dest");
        let calls16: Vec<usize> = if self.cfg.calls
            && !(self.cfg.excl.has("two_value_calls_in_expr") && fc.value_calls_in_expr >= 1)
            && !(self.cfg.excl.has("call_in_args") && fc.in_args > 0)
            && !fc.touched.contains("#sidefx")
        {
            self.callable(fc, true).into_iter().filter(|i| self.helpers[*i].ret == Some(Ty::U8)).collect()
        } else {
            vec![]
        };
        let w = [
            25u32,                              // leaf16
            12,                                 // leaf8 (extension)
            if depth > 0 { 30 } else { 0 },     // leaf16 op leaf
            if depth > 0 { 8 } else { 0 },      // unary
            if depth > 0 && shifts { 6 } else { 0 }, // byte composition with << 8 / >> 8
            if depth > 0 { 6 } else { 0 },      // leaf8 op leaf8 (widening arithmetic)
            if !calls16.is_empty() { 5 } else { 0 }, // the 8-bit result of a call, widened
            if depth > 0 { 4 } else { 0 },      // ?: whose alternatives are 16 bits wide (or widened)
        ];
        match self.g.weighted(&w) {
            7 => {
                // the whole value: both bytes come from the alternative that the condition selects
                let mut cv = self.leaf_w(fc, Ty::U8);
                for _ in 0..4 {
                    if Self::has_var(&cv) {
                        break;
                    }
                    cv = self.leaf_w(fc, Ty::U8);
                }
                if !Self::has_var(&cv) {
                    return self.leaf_w(fc, want);
                }
                let k = Expr::lit(*self.g.pick(&[0, 1, 2, 128, 255]));
                let c = match self.g.below(4) {
                    0 => cv,
                    1 => Expr::bin(BinOp::Ne, cv, k),
                    2 => Expr::bin(BinOp::Eq, cv, k),
                    _ => Expr::bin(if self.g.chance(1, 2) { BinOp::Lt } else { BinOp::Ge }, cv, Expr::lit(*self.g.pick(&[1, 2, 128, 200]))),
                };
                let wt = if self.g.chance(2, 3) { want } else { t8 };
                let a = self.leaf_w(fc, wt);
                let mut b = self.leaf_w(fc, wt);
                let sa = self.signed_of(fc, &a);
                for _ in 0..6 {
                    let sb = self.signed_of(fc, &b);
                    if sa.is_none() || sb.is_none() || sa == sb {
                        break;
                    }
                    b = self.leaf_w(fc, wt);
                }
                Expr::Ternary(Box::new(c), Box::new(a), Box::new(b))
            }
            6 => {
                // the function is called once, whatever the number of bytes of the destination
                let fi = *self.g.pick(&calls16);
                let call = self.call_expr(fc, fi, depth.min(1));
                // (a constant on the other side of + or -: the open finding about the high byte of a register)
                let mut other = self.leaf_w(fc, want);
                if self.cfg.excl.has("add16_register_operand") {
                    for _ in 0..6 {
                        if Self::has_var(&other) && !matches!(&other, Expr::Lv(LValue::Var(v)) if self.globals.iter().any(|g| g.name == *v && matches!(g.kind, VarKind::ConstScalar(_)))) {
                            break;
                        }
                        other = self.leaf_w(fc, want);
                    }
                }
                match self.g.below(4) {
                    0 | 1 => call,
                    2 => Expr::bin(if self.g.chance(1, 2) { BinOp::Add } else { BinOp::Sub }, other, call),
                    _ => Expr::bin(*self.g.pick(&[BinOp::Add, BinOp::Or, BinOp::Xor]), call, other),
                }
            }
            0 => self.leaf_w(fc, want),
            1 if depth > 0 && self.g.chance(1, 6) && !fc.touched.contains("#call") => self.side_effect_expr(fc, t8),
            1 => self.leaf_w(fc, t8),
            2 => {
                let op = *self.g.pick(&[BinOp::Add, BinOp::Add, BinOp::Sub, BinOp::Sub, BinOp::And, BinOp::Or, BinOp::Xor]);
                let a = self.leaf_w(fc, want);
                let b = match self.g.below(3) {
                    0 => self.leaf_w(fc, want),
                    1 => self.leaf_w(fc, t8),
                    _ => self.literal(want),
                };
                if self.g.chance(1, 5) && op.commutative() {
                    Expr::bin(op, b, a)
                } else {
                    Expr::bin(op, a, b)
                }
            }
            3 => {
                let op = if self.g.chance(1, 2) { UnOp::Neg } else { UnOp::BNot };
                Expr::Un(op, Box::new(self.leaf_w(fc, want)))
            }
            4 => match self.g.below(7) {
                // a 16-bit value shifted left by less than a byte (bits move from the low to the high byte)
                6 => Expr::bin(BinOp::Shl, self.leaf_w(fc, want), Expr::lit(1 + self.g.below(7) as i32)),
                // an 8-bit value shifted right, widened by the 16-bit destination: the high byte is the sign
                4 | 5 => Expr::bin(BinOp::Shr, self.leaf_w(fc, t8), Expr::lit(self.g.below(8) as i32)),
                0 => Expr::bin(BinOp::Shl, self.leaf_w(fc, Ty::U8), Expr::lit(8)),
                1 => Expr::bin(
                    // the two bytes do not overlap: `|` and `+` compose the same value
                    if self.g.chance(1, 2) { BinOp::Or } else { BinOp::Add },
                    Expr::bin(BinOp::Shl, self.leaf_w(fc, Ty::U8), Expr::lit(8)),
                    self.leaf_w(fc, Ty::U8),
                ),
                2 => Expr::bin(BinOp::Shr, self.leaf_w(fc, want), Expr::lit(8)),
                _ => Expr::bin(BinOp::And, self.leaf_w(fc, want), Expr::Lit(0xff, LitFmt::Hex)),
            },
            _ => {
                let op = *self.g.pick(&[BinOp::Add, BinOp::Sub, BinOp::And, BinOp::Or, BinOp::Xor]);
                Expr::bin(op, self.leaf_w(fc, t8), self.leaf_w(fc, t8))
            }
        }
    }

    fn expr8(&mut self, fc: &mut FnCtx, want: Ty, depth: u32) -> Expr {
        if depth == 0 || self.g.chance(1, 4) {
            return self.leaf_w(fc, want);
        }
        let can_call = self.cfg.calls
            && !self.callable(fc, true).is_empty()
            && !(self.cfg.excl.has("two_value_calls_in_expr") && fc.value_calls_in_expr >= 1)
            && !(self.cfg.excl.has("call_in_args") && fc.in_args > 0)
            && !fc.touched.contains("#sidefx");
        let w = [
            40u32,                         // arithmetic / bitwise
            10,                            // shift by literal
            8,                             // comparison as value
            5,                             // logical
            8,                             // unary
            5,                             // ternary
            if can_call { 8 } else { 0 },  // call
            3,                             // side effect inside (++, nested assign)
            if fc.in_args == 0 { 2 } else { 0 }, // comma
            if fc.no16 == 0 { 3 } else { 0 }, // truncation of a 16-bit leaf
        ];
        match self.g.weighted(&w) {
            0 => {
                let op = *self.g.pick(&[BinOp::Add, BinOp::Add, BinOp::Sub, BinOp::Sub, BinOp::And, BinOp::Or, BinOp::Xor]);
                let mut a = self.expr8(fc, want, depth - 1);
                let b = if self.g.chance(7, 10) { self.leaf_w(fc, want) } else { self.expr8(fc, want, depth - 1) };
                if !Self::has_var(&a) && !Self::has_var(&b) {
                    // constant sub-expressions are C10's business; keep a variable in every operator
                    let c = self.visible_scalars(fc, Some(true), false);
                    let (n, _) = self.g.pick(&c).clone();
                    fc.touched.insert(n.clone());
                    a = Expr::var(&n);
                }
                Expr::bin(op, a, b)
            }
            1 => {
                let op = if self.g.chance(1, 2) { BinOp::Shl } else { BinOp::Shr };
                let a = self.expr8(fc, want, depth - 1);
                Expr::bin(op, a, Expr::lit(self.g.range(1, 7) as i32))
            }
            2 => self.comparison(fc, depth - 1),
            3 => {
                let op = if self.g.chance(1, 2) { BinOp::LAnd } else { BinOp::LOr };
                let a = self.condition(fc, depth - 1);
                let b = self.condition(fc, depth - 1);
                Expr::bin(op, a, b)
            }
            4 => {
                let op = *self.g.pick(&[UnOp::Neg, UnOp::BNot, UnOp::LNot]);
                let a = self.expr8(fc, want, depth - 1);
                Expr::Un(op, Box::new(a))
            }
            5 => {
                let c = self.condition(fc, depth - 1);
                // both alternatives of the same signedness (the compiler insists)
                // (one alternative in five has a side effect of its own, which only takes place on its path)
                let a = if self.g.chance(1, 5) && !fc.touched.contains("#call") { self.side_effect_expr(fc, want) } else { self.leaf_w(fc, want) };
                let mut b = self.leaf_w(fc, want);
                let sa = self.signed_of(fc, &a);
                for _ in 0..6 {
                    let sb = self.signed_of(fc, &b);
                    if sa.is_none() || sb.is_none() || sa == sb {
                        break;
                    }
                    b = self.leaf_w(fc, want);
                }
                if self.g.chance(1, 2) {
                    Expr::Ternary(Box::new(c), Box::new(a), Box::new(b))
                } else {
                    Expr::Ternary(Box::new(c), Box::new(b), Box::new(a))
                }
            }
            6 => {
                let c = self.callable(fc, true);
                let fi = *self.g.pick(&c);
                self.call_expr(fc, fi, depth - 1)
            }
            7 => self.side_effect_expr(fc, want),
            8 => {
                let a = self.side_effect_expr(fc, want);
                let b = self.expr8(fc, want, depth - 1);
                Expr::Comma(Box::new(a), Box::new(b))
            }
            _ => {
                if self.cfg.shorts {
                    self.leaf_w(fc, Ty::I16)
                } else {
                    self.leaf_w(fc, want)
                }
            }
        }
    }

    /// ++/-- or nested assignment on a variable not otherwise touched in this full expression
    fn side_effect_expr(&mut self, fc: &mut FnCtx, want: Ty) -> Expr {
        if fc.touched.contains("#call") {
            return self.leaf_w(fc, want);
        }
        let c: Vec<(String, Ty)> = self
            .visible_scalars(fc, Some(is8(want)), true)
            .into_iter()
            .filter(|(n, _)| !fc.touched.contains(n))
            .collect();
        if c.is_empty() {
            return self.leaf_w(fc, want);
        }
        let (name, ty) = self.g.pick(&c).clone();
        fc.touched.insert(name.clone());
        fc.touched.insert("#sidefx".into());
        let lv = LValue::Var(name);
        let force_prefix = self.cfg.excl.has("postfix_in_condition") && fc.in_condition;
        match self.g.below(5) {
            0 | 1 => Expr::IncDec(self.g.chance(1, 2), self.g.chance(1, 2) || force_prefix, lv),
            2 | 3 => Expr::IncDec(self.g.chance(1, 2), !self.g.chance(2, 3) || force_prefix, lv),
            _ => {
                // a nested assignment to an array element (constant, register or variable index): the
                // enclosing expression uses the value of the assignment
                if self.cfg.arrays && is8(want) && self.g.chance(1, 3) {
                    let c: Vec<(String, Ty, usize)> =
                        self.arrays(fc, Some(true), true).into_iter().filter(|(n, _, _)| !fc.touched.contains(n)).collect();
                    if !c.is_empty() {
                        let (an, aty, n) = self.g.pick(&c).clone();
                        let idx = self.index_expr(fc, n);
                        fc.touched.insert(an.clone());
                        let e = self.leaf_w(fc, aty);
                        return Expr::Assign(None, LValue::Index(an, Box::new(idx)), Box::new(e));
                    }
                }
                let e = self.leaf_w(fc, ty);
                // (also `v += e` ...: the value of the expression is the new value of the variable)
                let op = if is8(ty) && self.g.chance(1, 3) { Some(*self.g.pick(&[BinOp::Add, BinOp::Sub, BinOp::Or, BinOp::And, BinOp::Xor])) } else { None };
                Expr::Assign(op, lv, Box::new(e))
            }
        }
    }

    fn comparison(&mut self, fc: &mut FnCtx, depth: u32) -> Expr {
        let t = match self.g.below(8) {
            0 if self.cfg.shorts => Ty::I16,
            1 if self.cfg.shorts => Ty::U16,
            2 | 3 if self.cfg.signed => Ty::I8,
            _ => Ty::U8,
        };
        let mut ops = vec![BinOp::Eq, BinOp::Ne, BinOp::Lt, BinOp::Le, BinOp::Gt, BinOp::Ge];
        if self.cfg.excl.has("signed_rel") && t.signed() {
            ops.truncate(2);
        }
        if self.cfg.excl.has("le_gt_16bit") && !is8(t) {
            ops.retain(|o| !matches!(o, BinOp::Le | BinOp::Gt));
        }
        let op = *self.g.pick(&ops);
        let save = fc.dest16;
        fc.dest16 = false;
        // the left operand is never a literal (constant conditions are not supported)
        let (a, b) = if is8(t) {
            fc.no16 += 1;
            let mut a = self.expr8(fc, t, depth.min(1));
            for _ in 0..4 {
                if Self::has_var(&a) {
                    break;
                }
                a = self.leaf_w(fc, t);
            }
            if !Self::has_var(&a) {
                a = Expr::var("X");
            }
            let b = if self.g.chance(1, 2) { self.literal(t) } else { self.expr8(fc, t, depth.min(1)) };
            fc.no16 -= 1;
            (a, b)
        } else {
            let c = self.visible_scalars(fc, Some(false), false);
            if c.is_empty() {
                (Expr::var("X"), self.literal(Ty::U8))
            } else {
                let (n, nt) = self.g.pick(&c).clone();
                fc.touched.insert(n.clone());
                let b = if self.g.chance(1, 2) {
                    // literal in the range of the left operand's own type
                    self.literal(nt)
                } else {
                    let (m, _) = self.g.pick(&c).clone();
                    fc.touched.insert(m.clone());
                    Expr::var(&m)
                };
                (Expr::var(&n), b)
            }
        };
        fc.dest16 = save;
        let (a, b) = if self.cfg.excl.has("eq_rel_same_level") { (Self::guard_cmp(a), Self::guard_cmp(b)) } else { (a, b) };
        Expr::bin(op, a, b)
    }

    fn has_var(e: &Expr) -> bool {
        match e {
            Expr::Lit(_, _) | Expr::SizeofVar(_) | Expr::SizeofType(_) => false,
            Expr::Un(_, a) => Self::has_var(a),
            Expr::Bin(_, a, b) => Self::has_var(a) || Self::has_var(b),
            Expr::Ternary(c, a, b) => Self::has_var(c) || Self::has_var(a) || Self::has_var(b),
            Expr::Comma(_, b) => Self::has_var(b),
            // const scalars are named K<n> by gen_globals
            Expr::Lv(LValue::Var(n)) if n.starts_with('K') => false,
            _ => true,
        }
    }

    /// with the eq/rel exclusion active, a comparison operand that is itself a comparison
    /// is replaced by its left operand
    fn guard_cmp(e: Expr) -> Expr {
        match e {
            Expr::Bin(op, a, _) if op.is_cmp() => *a,
            other => other,
        }
    }

    fn condition(&mut self, fc: &mut FnCtx, depth: u32) -> Expr {
        let save = fc.in_condition;
        fc.in_condition = true;
        let e = match self.g.weighted(&[60, 15, 10, 10]) {
            0 => self.comparison(fc, depth),
            1 => {
                let t = if self.g.chance(1, 4) && self.cfg.shorts { Ty::I16 } else { Ty::U8 };
                let mut l = self.leaf_w(fc, t);
                if !Self::has_var(&l) {
                    l = Expr::var("Y");
                }
                l
            }
            2 if depth > 0 => {
                let a = self.condition(fc, depth - 1);
                Expr::Un(UnOp::LNot, Box::new(a))
            }
            3 if depth > 0 => {
                let op = if self.g.chance(1, 2) { BinOp::LAnd } else { BinOp::LOr };
                let a = self.condition(fc, depth - 1);
                let b = self.condition(fc, depth - 1);
                Expr::bin(op, a, b)
            }
            _ => self.comparison(fc, depth),
        };
        fc.in_condition = save;
        e
    }

    // ------------------------------------------------------------------ statements

    fn new_expr_ctx(fc: &mut FnCtx) {
        fc.touched.clear();
        fc.value_calls_in_expr = 0;
        fc.dest16 = false;
    }

    fn lvalue(&mut self, fc: &mut FnCtx) -> (LValue, Ty) {
        let w = [55u32, if self.cfg.arrays { 25 } else { 0 }, if self.cfg.pointers { 8 } else { 0 }];
        match self.g.weighted(&w) {
            1 => {
                let c = self.arrays(fc, None, true);
                if !c.is_empty() {
                    let (name, ty, n) = self.g.pick(&c).clone();
                    let idx = self.index_expr(fc, n);
                    fc.touched.insert(name.clone());
                    return (LValue::Index(name, Box::new(idx)), ty);
                }
            }
            2 => {
                let ps = self.ptr_vars();
                let rs = self.const_ptrs();
                if !ps.is_empty() && (rs.is_empty() || self.g.chance(2, 3)) {
                    let p = self.g.pick(&ps).clone();
                    fc.touched.insert(p.clone());
                    fc.touched.insert("*".into());
                    if self.g.chance(1, 2) {
                        return (LValue::Deref(p), Ty::U8);
                    }
                    fc.touched.insert("Y".into());
                    return (LValue::Index(p, Box::new(Expr::var("Y"))), Ty::U8);
                } else if !rs.is_empty() {
                    let r = self.g.pick(&rs).clone();
                    return (LValue::Deref(r), Ty::U8);
                }
            }
            _ => {}
        }
        let c = self.visible_scalars(fc, None, true);
        let (name, ty) = self.g.pick(&c).clone();
        fc.touched.insert(name.clone());
        (LValue::Var(name), ty)
    }

    fn assign_stmt(&mut self, fc: &mut FnCtx) -> Stmt {
        Self::new_expr_ctx(fc);
        let (lv, ty) = self.lvalue(fc);
        fc.dest16 = ty.bits() == 16;
        let depth = self.g.below(self.cfg.max_expr_depth as usize + 1) as u32;
        match self.g.weighted(&[60, 25, 15]) {
            0 => {
                let mut e = self.rvalue(fc, ty, depth);
                // `v = v` is pointless (and a known finding): take another operand
                for _ in 0..4 {
                    match (&lv, &e) {
                        (LValue::Var(a), Expr::Lv(LValue::Var(b))) if a == b => e = self.rvalue(fc, ty, depth),
                        _ => break,
                    }
                }
                if matches!((&lv, &e), (LValue::Var(a), Expr::Lv(LValue::Var(b))) if a == b) {
                    e = self.literal(ty);
                }
                Stmt::Expr(Expr::Assign(None, lv, Box::new(e)))
            }
            1 => {
                let mut ops = vec![BinOp::Add, BinOp::Sub, BinOp::And, BinOp::Or, BinOp::Xor];
                ops.push(BinOp::Shl);
                ops.push(BinOp::Shr);
                let op = *self.g.pick(&ops);
                let e = if matches!(op, BinOp::Shl | BinOp::Shr) {
                    Expr::lit(self.g.range(1, 7) as i32)
                } else if ty.bits() == 16 {
                    match self.g.below(3) {
                        0 => self.leaf_w(fc, ty),
                        1 => self.leaf_w(fc, Ty::U8),
                        _ => self.literal(ty),
                    }
                } else {
                    self.rvalue(fc, ty, depth.min(2))
                };
                Stmt::Expr(Expr::Assign(Some(op), lv, Box::new(e)))
            }
            _ => Stmt::Expr(Expr::IncDec(self.g.chance(1, 2), self.g.chance(1, 2), lv)),
        }
    }

    fn ptr_stmt(&mut self, fc: &mut FnCtx) -> Option<Stmt> {
        let ps = self.ptr_vars();
        if ps.is_empty() {
            return None;
        }
        let p = self.g.pick(&ps).clone();
        if fc.protected.contains(&p) {
            return None;
        }
        let arrs: Vec<(String, usize)> = self
            .globals
            .iter()
            .filter(|g| is8(g.ty) && g.is_array() && !self.is_split(&g.name))
            .map(|g| (g.name.clone(), g.len()))
            .collect();
        if arrs.is_empty() {
            return None;
        }
        let (a, n) = self.g.pick(&arrs).clone();
        Some(match self.g.below(4) {
            0 => Stmt::Expr(Expr::Assign(None, LValue::Var(p), Box::new(Expr::AddrOf(a)))),
            1 => {
                let k = self.g.below(n) as i32;
                Stmt::Expr(Expr::Assign(
                    None,
                    LValue::Var(p),
                    Box::new(Expr::bin(BinOp::Add, Expr::AddrOf(a), Expr::lit(k))),
                ))
            }
            2 => Stmt::Expr(Expr::IncDec(true, self.g.chance(1, 2), LValue::Var(p))),
            _ => Stmt::Expr(Expr::Assign(Some(BinOp::Add), LValue::Var(p), Box::new(Expr::lit(self.g.range(1, 3) as i32)))),
        })
    }

    fn body(&mut self, fc: &mut FnCtx, max: usize) -> Stmt {
        fc.nest += 1;
        let n = 1 + self.g.below(max.max(1));
        let stmts = self.stmt_list(fc, n);
        fc.nest -= 1;
        if stmts.len() == 1 && self.g.chance(1, 2) && !matches!(stmts[0], Stmt::Decl(_) | Stmt::Label(_, _)) {
            stmts.into_iter().next().unwrap()
        } else {
            Stmt::Block(stmts)
        }
    }

    fn stmt_list(&mut self, fc: &mut FnCtx, n: usize) -> Vec<Stmt> {
        fc.scopes.push(vec![]);
        let mut out = vec![];
        if self.cfg.locals && fc.no_decl == 0 && self.g.chance(1, 3) {
            // declarations first (C89 style keeps every compiler happy)
            let k = 1 + self.g.below(2);
            for _ in 0..k {
                let ty = match self.g.below(5) {
                    0 if self.cfg.shorts => Ty::I16,
                    1 if self.cfg.signed => Ty::I8,
                    _ => Ty::U8,
                };
                // sometimes shadow an outer name
                let name = if self.g.chance(1, 5) {
                    let vis = self.visible_scalars(fc, None, true);
                    // redeclaring a parameter in the outermost block of its function is not valid C
                    let outermost = fc.scopes.len() == 1;
                    let cands: Vec<&(String, Ty)> = vis
                        .iter()
                        .filter(|(n, _)| n != "X" && n != "Y" && !(outermost && fc.params.iter().any(|p| &p.name == n)))
                        .collect();
                    if cands.is_empty() {
                        self.fresh("l")
                    } else {
                        self.label("shadowing");
                        cands[self.g.below(cands.len())].0.clone()
                    }
                } else {
                    self.fresh("l")
                };
                if fc.scopes.last().unwrap().iter().any(|l| l.name == name) || fc.protected.contains(&name) {
                    continue;
                }
                Self::new_expr_ctx(fc);
                let init = if self.g.chance(2, 3) { Some(self.rvalue(fc, ty, 1)) } else { None };
                let has_init = init.is_some();
                out.push(Stmt::Decl(VarDecl {
                    name: name.clone(),
                    ty,
                    kind: VarKind::Scalar,
                    mem: MemQual::Default,
                    explicit_sign: false,
                    init,
                }));
                fc.scopes.last_mut().unwrap().push(LVar { name: name.clone(), ty, arr: 0 });
                if !has_init {
                    // make sure it is written before any read
                    Self::new_expr_ctx(fc);
                    let mut e = self.leaf(fc, ty);
                    if crate::excl::mentions(&e, &name) {
                        e = self.literal(ty);
                    }
                    out.push(Stmt::Expr(Expr::Assign(None, LValue::Var(name), Box::new(e))));
                }
            }
        }
        for _ in 0..n {
            let s = self.stmt(fc);
            out.extend(s);
        }
        fc.scopes.pop();
        out
    }

    fn counter_var(&mut self, fc: &FnCtx) -> Option<(String, Ty)> {
        let c: Vec<(String, Ty)> = self
            .visible_scalars(fc, Some(true), true)
            .into_iter()
            .filter(|(n, t)| *t == Ty::U8 && !self.is_split(n))
            .collect();
        if c.is_empty() {
            None
        } else {
            Some(self.g.pick(&c).clone())
        }
    }

    fn loop_stmt(&mut self, fc: &mut FnCtx) -> Vec<Stmt> {
        let (cv, _) = match self.counter_var(fc) {
            Some(c) => c,
            None => return vec![self.assign_stmt(fc)],
        };
        let n = self.g.range(1, 5) as i32;
        fc.protected.insert(cv.clone());
        fc.in_loop += 1;
        let lv = LValue::Var(cv.clone());
        let kind = self.g.below(6);
        let up = self.g.chance(2, 3);
        let (init, cond, upd) = if up {
            (
                Expr::assign(lv.clone(), Expr::lit(0)),
                Expr::bin(if self.g.chance(3, 4) { BinOp::Lt } else { BinOp::Ne }, Expr::var(&cv), Expr::lit(n)),
                Expr::IncDec(true, self.g.chance(1, 2), lv.clone()),
            )
        } else {
            (
                Expr::assign(lv.clone(), Expr::lit(n)),
                if self.g.chance(1, 2) && !self.cfg.excl.has("gt_lte_zero") {
                    Expr::bin(BinOp::Gt, Expr::var(&cv), Expr::lit(0))
                } else {
                    Expr::bin(BinOp::Ne, Expr::var(&cv), Expr::lit(0))
                },
                Expr::IncDec(false, self.g.chance(1, 2), lv.clone()),
            )
        };
        let out = match kind {
            0..=2 => {
                self.label("for");
                fc.in_for += 1;
                let b = self.body(fc, 3);
                fc.in_for -= 1;
                vec![Stmt::For(Some(init), Some(cond), Some(upd), Box::new(b))]
            }
            3 | 4 => {
                self.label("while");
                // the counter update comes last (then no `continue`: it would skip the update)
                // or first (then `continue` is fine)
                let update_first = self.g.chance(1, 3);
                let save_for = fc.in_for;
                fc.in_for = if update_first { 1 } else { 0 };
                let b = self.body(fc, 3);
                fc.in_for = save_for;
                let mut v = match b {
                    Stmt::Block(v) => v,
                    s => vec![s],
                };
                if update_first {
                    self.label("while-update-first");
                    v.insert(0, Stmt::Expr(upd));
                } else {
                    v.push(Stmt::Expr(upd));
                }
                vec![Stmt::Expr(init), Stmt::While(cond, Box::new(Stmt::Block(v)))]
            }
            _ => {
                self.label("do-while");
                let update_first = self.g.chance(1, 3);
                let save_for = fc.in_for;
                fc.in_for = if update_first { 1 } else { 0 };
                let b = self.body(fc, 3);
                fc.in_for = save_for;
                let mut v = match b {
                    Stmt::Block(v) => v,
                    s => vec![s],
                };
                if update_first {
                    self.label("do-while-update-first");
                    if self.cfg.switch && self.g.chance(1, 2) {
                        // `continue`, then a switch without `continue` later in the same body: the jump to
                        // the loop condition needs its label whatever follows
                        self.label("continue-then-switch-in-do-while");
                        Self::new_expr_ctx(fc);
                        let c = self.condition(fc, 1);
                        let save = (fc.in_for, fc.in_loop);
                        fc.in_for = 0;
                        fc.in_loop = 0;
                        let sw = self.switch_stmt(fc);
                        fc.in_for = save.0;
                        fc.in_loop = save.1;
                        v.insert(0, sw);
                        // `if (c) continue;` is a conditional branch to the label, `{ ...; continue; }` a jump
                        let cont = if self.g.chance(1, 2) {
                            Stmt::Continue
                        } else {
                            let st = self.assign_stmt(fc);
                            Stmt::Block(vec![st, Stmt::Continue])
                        };
                        v.insert(0, Stmt::If(c, Box::new(cont), None));
                    }
                    v.insert(0, Stmt::Expr(upd));
                } else {
                    v.push(Stmt::Expr(upd));
                }
                // do-while runs at least once: start inside the range
                let init = if up { init } else { Expr::assign(lv.clone(), Expr::lit(n.max(1))) };
                vec![Stmt::Expr(init), Stmt::DoWhile(Box::new(Stmt::Block(v)), cond)]
            }
        };
        fc.in_loop -= 1;
        fc.protected.remove(&cv);
        out
    }

    fn switch_stmt(&mut self, fc: &mut FnCtx) -> Stmt {
        self.label("switch");
        Self::new_expr_ctx(fc);
        let c: Vec<(String, Ty)> = self
            .visible_scalars(fc, Some(true), false)
            .into_iter()
            .filter(|(n, _)| !self.globals.iter().any(|g| &g.name == n && matches!(g.kind, VarKind::ConstScalar(_))))
            .collect();
        let (name, ty) = self.g.pick(&c).clone();
        let ncases = 1 + self.g.below(4);
        let mut used: HashSet<i32> = HashSet::new();
        let mut cases = vec![];
        fc.in_switch += 1;
        fc.no_decl += 1;
        for _ in 0..ncases {
            let nl = if self.g.chance(1, 4) { 2 } else { 1 };
            let mut labels = vec![];
            for _ in 0..nl {
                let v = if ty.signed() { self.g.range(0, 6) as i32 } else { *self.g.pick(&[0, 1, 2, 3, 4, 5, 7, 128, 255]) };
                if used.insert(v) {
                    labels.push(v);
                }
            }
            if labels.is_empty() {
                continue;
            }
            fc.nest += 1;
            let n = self.g.below(3);
            let mut body = self.stmt_list(fc, n);
            fc.nest -= 1;
            body.retain(|s| !matches!(s, Stmt::Decl(_)));
            if self.g.chance(3, 4) {
                body.push(Stmt::Break);
            } else {
                self.label("switch-fallthrough");
            }
            cases.push(Case { labels, body });
        }
        let default = if self.g.chance(1, 2) {
            fc.nest += 1;
            let mut d = self.stmt_list(fc, 1);
            fc.nest -= 1;
            d.retain(|s| !matches!(s, Stmt::Decl(_)));
            Some(d)
        } else {
            None
        };
        fc.in_switch -= 1;
        fc.no_decl -= 1;
        if cases.is_empty() {
            return self.assign_stmt(fc);
        }
        // the operand is a variable or a small computed value (it then stays in the accumulator
        // from one case to the next)
        let operand = if !ty.signed() && self.g.chance(1, 3) {
            self.label("switch-on-expression");
            match self.g.below(3) {
                0 => Expr::bin(BinOp::And, Expr::var(&name), Expr::lit(7)),
                1 => Expr::bin(BinOp::Add, Expr::var(&name), Expr::lit(1)),
                _ => Expr::bin(BinOp::Xor, Expr::var(&name), Expr::lit(2)),
            }
        } else if name != "X" && name != "Y" && !fc.protected.contains(&name) && self.g.chance(1, 6) {
            // the value before the step is compared with every case
            self.label("switch-on-post-increment");
            Expr::IncDec(self.g.chance(1, 2), false, LValue::Var(name.clone()))
        } else {
            Expr::var(&name)
        };
        Stmt::Switch(operand, cases, default)
    }

    fn asm_stmt(&mut self, fc: &mut FnCtx) -> Stmt {
        self.label("inline-asm");
        let vars: Vec<String> =
            self.globals.iter().filter(|g| g.kind == VarKind::Scalar && is8(g.ty) && g.mem == MemQual::Default && !fc.protected.contains(&g.name) && !g.name.starts_with("hv")).map(|g| g.name.clone()).collect();
        let prot_x = fc.protected.contains("X");
        let prot_y = fc.protected.contains("Y");
        // a comment line of the assembler: no code, declared size 0
        let mut menu: Vec<(String, u32)> = vec![("NOP".into(), 1), ("; ---- marker ----".into(), 0)];
        if !prot_x {
            menu.push((format!("LDX #{}", self.g.below(6)), 2));
            menu.push(("INX".into(), 1));
        }
        if !prot_y {
            menu.push((format!("LDY #{}", self.g.below(6)), 2));
            menu.push(("DEY".into(), 1));
        }
        if !vars.is_empty() {
            let v = self.g.pick(&vars).clone();
            menu.push((format!("INC {}", v), 2));
            menu.push((format!("DEC {}", v), 2));
            if !prot_x {
                menu.push((format!("LDX {}", v), 2));
            }
            menu.push((format!("STX {}", v), 2));
            menu.push((format!("STY {}", v), 2));
        }
        let (t, size) = self.g.pick(&menu).clone();
        // zero-page operands: declared size is the true size; absolute (ramchip) would be 3
        // (a comment always carries its size hint: without one it would count as 3 bytes of nothing)
        Stmt::Asm(t, if size == 0 || self.g.chance(3, 4) { Some(size) } else { None })
    }

    fn hw_stmt(&mut self, fc: &mut FnCtx) -> Vec<Stmt> {
        let ord: Vec<String> = self
            .globals
            .iter()
            .filter(|g| g.kind == VarKind::Scalar && is8(g.ty) && !fc.protected.contains(&g.name) && !g.name.starts_with("hv"))
            .map(|g| g.name.clone())
            .collect();
        let hv = |g: &mut G| format!("hv{}", 1 + g.below(3));
        let hr = |g: &mut G| format!("HR{}", 1 + g.below(2));
        let sleep = |g: &mut G| -> i32 {
            if g.chance(9, 10) {
                g.range(2, 10) as i32
            } else {
                *g.pick(&[0, 1, 11, 12, 40])
            }
        };
        // a variable assigned right before the call of an inline function that starts by loading it explicitly:
        // the explicit load is not the reload of a value the accumulator is known to hold
        let lf: Vec<(usize, String)> = self.load_first.iter().filter(|(i, _)| fc.is_main || *i < fc.idx).cloned().collect();
        let mut lf: Vec<(String, String)> = lf.into_iter().map(|(i, h)| (self.helpers[i].name.clone(), h)).collect();
        if let Some((f, h)) = &self.line_helper {
            lf.push((f.name.clone(), h.clone()));
        }
        if !lf.is_empty() && self.g.chance(1, 6) {
            let (name, hvn) = self.g.pick(&lf).clone();
            self.label("assign-then-inline-load");
            let kk = self.g.range(0, 200) as i32;
            fc.touched.insert("#call".into());
            // (the variable is written by an explicit store: ordinary code never touches the watched objects)
            return vec![Stmt::Load(Expr::lit(kk)), Stmt::Store(LValue::Var(hvn)), Stmt::Expr(Expr::Call(name, vec![]))];
        }
        match self.g.below(19) {
            17 | 18 if ord.len() >= 2 => {
                // an explicit load of a value the accumulator already holds, while the flags
                // describe something else, followed by a store and an ordinary load
                self.label("load-of-known-value");
                let kk = self.g.range(0, 200) as i32;
                let a = self.g.pick(&ord).clone();
                let b = ord.iter().find(|n| **n != a).cloned().unwrap();
                let reg = if fc.protected.contains("X") { "Y" } else { "X" };
                let target = if self.g.chance(1, 2) { LValue::Var(hv(self.g)) } else { LValue::Deref(hr(self.g)) };
                let mut v = vec![Stmt::Expr(Expr::assign(LValue::Var(a.clone()), Expr::lit(kk)))];
                if !fc.protected.contains(reg) {
                    v.push(Stmt::Expr(Expr::assign(LValue::Var(reg.into()), Expr::var(&b))));
                } else {
                    v.push(Stmt::Expr(Expr::IncDec(true, false, LValue::Var(b.clone()))));
                }
                v.push(Stmt::Load(Expr::lit(kk)));
                v.push(Stmt::Store(target));
                v.push(Stmt::Expr(Expr::assign(LValue::Var(a), Expr::lit(kk + 1))));
                v
            }
            15 | 16 if !ord.is_empty() => {
                // a branch (else part, or last case of a switch) that consists of inline assembler
                // only: nothing may fall into it, nothing may skip it
                self.label("asm-only-branch");
                let v = self.g.pick(&ord).clone();
                let t = self.g.pick(&ord).clone();
                let h = hv(self.g);
                let h = if h == "hv3" { "hv1".to_string() } else { h };
                let asm = Stmt::Asm(format!("INC {}", h), Some(2));
                let k = self.g.range(0, 200) as i32;
                if self.g.chance(1, 2) {
                    vec![Stmt::If(
                        Expr::var(&v),
                        Box::new(Stmt::Block(vec![Stmt::Expr(Expr::assign(LValue::Var(t), Expr::lit(k)))])),
                        Some(Box::new(Stmt::Block(vec![asm]))),
                    )]
                } else {
                    vec![Stmt::Switch(
                        Expr::var(&v),
                        vec![
                            Case { labels: vec![1], body: vec![Stmt::Expr(Expr::assign(LValue::Var(t), Expr::lit(k))), Stmt::Break] },
                            Case { labels: vec![2], body: vec![asm, Stmt::Break] },
                        ],
                        None,
                    )]
                }
            }
            12 | 13 => {
                // an explicit read on its own: whatever follows starts with an ordinary load
                self.label("lone-load");
                let e = if self.g.chance(1, 2) { Expr::var(&hv(self.g)) } else { Expr::Lv(LValue::Deref(hr(self.g))) };
                let mut v = vec![Stmt::Load(e)];
                if !ord.is_empty() && self.g.chance(2, 3) {
                    let t = self.g.pick(&ord).clone();
                    let rhs = if self.g.chance(1, 2) { Expr::lit(self.g.range(0, 200) as i32) } else { Expr::var(&self.g.pick(&ord).clone()) };
                    if rhs != Expr::var(&t) {
                        v.push(Stmt::Expr(Expr::assign(LValue::Var(t), rhs)));
                    }
                }
                v
            }
            14 if !ord.is_empty() => {
                // an explicit write right after ordinary code (the stored value is unspecified,
                // the access itself must happen)
                self.label("store-after-ordinary");
                let t = self.g.pick(&ord).clone();
                let k = self.g.range(0, 200) as i32;
                let target = if self.g.chance(1, 2) { LValue::Var(hv(self.g)) } else { LValue::Deref(hr(self.g)) };
                vec![Stmt::Expr(Expr::assign(LValue::Var(t), Expr::lit(k))), Stmt::Store(target)]
            }
            0..=2 => {
                self.label("csleep");
                vec![Stmt::Csleep(sleep(self.g))]
            }
            3 => {
                self.label("load-store-pair");
                let a = hv(self.g);
                let b = hv(self.g);
                vec![Stmt::Load(Expr::var(&a)), Stmt::Store(LValue::Var(b))]
            }
            4 => {
                // same operand: the pattern the peephole rules "LDA x / STA x" look for
                self.label("load-store-same-operand");
                let a = hv(self.g);
                vec![Stmt::Load(Expr::var(&a)), Stmt::Store(LValue::Var(a))]
            }
            5 => {
                self.label("strobe");
                let r = hr(self.g);
                let mut v = vec![Stmt::Strobe(LValue::Var(r.clone()))];
                if self.g.chance(1, 3) {
                    v.push(Stmt::Strobe(LValue::Var(r)));
                }
                v
            }
            6 => {
                self.label("load-register-then-strobe");
                let r = hr(self.g);
                vec![Stmt::Load(Expr::Lv(LValue::Deref(r.clone()))), Stmt::Strobe(LValue::Var(r))]
            }
            7 => {
                self.label("load-register-store");
                let r = hr(self.g);
                let b = hv(self.g);
                vec![Stmt::Load(Expr::Lv(LValue::Deref(r))), Stmt::Store(LValue::Var(b))]
            }
            8 if !ord.is_empty() => {
                // explicit access next to an ordinary access of the same ordinary variable
                self.label("explicit-next-to-ordinary");
                let v = self.g.pick(&ord).clone();
                let b = hv(self.g);
                let k = self.g.range(0, 9) as i32;
                vec![
                    Stmt::Expr(Expr::assign(LValue::Var(v.clone()), Expr::lit(k))),
                    Stmt::Load(Expr::var(&v)),
                    Stmt::Store(LValue::Var(b)),
                ]
            }
            9 => {
                self.label("csleep-between-assignment-and-test");
                let reg = if self.g.chance(1, 2) { "X" } else { "Y" };
                if fc.protected.contains(reg) || ord.is_empty() {
                    return vec![Stmt::Csleep(sleep(self.g))];
                }
                let v = self.g.pick(&ord).clone();
                let t = self.g.pick(&ord).clone();
                vec![
                    Stmt::Expr(Expr::assign(LValue::Var(reg.to_string()), Expr::var(&v))),
                    Stmt::Csleep(self.g.range(2, 10) as i32),
                    Stmt::If(
                        if self.g.chance(1, 2) { Expr::var(reg) } else { Expr::bin(BinOp::Eq, Expr::var(reg), Expr::lit(0)) },
                        Box::new(Stmt::Expr(Expr::assign(LValue::Var(t), Expr::lit(self.g.range(0, 200) as i32)))),
                        None,
                    ),
                ]
            }
            10 => {
                self.label("two-loads");
                let a = hv(self.g);
                let b = hv(self.g);
                let c = hv(self.g);
                vec![Stmt::Load(Expr::var(&a)), Stmt::Load(Expr::var(&b)), Stmt::Store(LValue::Var(c))]
            }
            _ => {
                self.label("store-to-register-address");
                let r = hr(self.g);
                let a = hv(self.g);
                vec![Stmt::Load(Expr::var(&a)), Stmt::Store(LValue::Deref(r))]
            }
        }
    }

    fn stmt(&mut self, fc: &mut FnCtx) -> Vec<Stmt> {
        let deep = fc.nest >= self.cfg.max_nest;
        let can_call = self.cfg.calls && (!self.callable(fc, false).is_empty() || (self.cfg.self_calls && !fc.is_main));
        let w = [
            50u32,                                                            // assignment family
            if deep { 0 } else { 14 },                                        // if
            if deep || !self.cfg.loops { 0 } else { 9 },                      // loop
            if deep || !self.cfg.switch { 0 } else { 4 },                     // switch
            if can_call { 8 } else { 0 },                                     // call statement
            if deep || !self.cfg.locals || fc.no_decl > 0 { 0 } else { 4 },   // nested block
            if fc.in_loop > 0 { 3 } else { 0 },                               // break / continue
            if self.cfg.goto && !deep { 2 } else { 0 },                       // goto
            if !fc.is_main { 3 } else { 1 },                                  // early return
            if self.cfg.pointers { 4 } else { 0 },                            // pointer statement
            if self.cfg.asm_menu { 6 } else { 0 },                            // inline asm
            if self.cfg.hw { 14 } else { 0 },                                 // hardware statements
            if self.cfg.opt_stress { 14 } else { 0 },                         // optimizer stress pattern
            if can_call { 4 } else { 0 },                                     // flag-setting statement, call, test
            3,                                                                // flag-setting statement, test
            if self.cfg.calls && !self.callable(fc, true).is_empty() { 4 } else { 0 }, // result of a call next to a small constant
        ];
        match self.g.weighted(&w) {
            0 => vec![self.assign_stmt(fc)],
            1 => {
                self.label("if");
                Self::new_expr_ctx(fc);
                let d = self.g.below(3) as u32;
                let c = self.condition(fc, d);
                let a = self.body(fc, 3);
                let b = if self.g.chance(2, 5) {
                    self.label("if-else");
                    Some(Box::new(self.body(fc, 3)))
                } else {
                    None
                };
                vec![Stmt::If(c, Box::new(a), b)]
            }
            2 => self.loop_stmt(fc),
            3 => vec![self.switch_stmt(fc)],
            4 if self.cfg.self_calls && !fc.is_main && !fc.inline && self.g.chance(1, 3) => {
                // direct recursion, guarded by a condition (never executed: for checks that only
                // look at what is emitted)
                self.label("self-call");
                self.self_callers.insert(fc.idx);
                Self::new_expr_ctx(fc);
                let c = self.condition(fc, 1);
                let ptys: Vec<Ty> = fc.params.iter().map(|p| p.ty).collect();
                let mut args = vec![];
                for t in ptys {
                    args.push(if t == Ty::Ptr { Expr::lit(0) } else { self.rvalue(fc, t, 1) });
                }
                let me = Stmt::Expr(Expr::Call(self.func_name(fc.idx), args));
                if self.g.chance(1, 2) && !self.callable(fc, false).is_empty() {
                    // a further call after the self-call
                    Self::new_expr_ctx(fc);
                    let cl = self.callable(fc, false);
                    let fi = *self.g.pick(&cl);
                    let other = Stmt::Expr(self.call_expr(fc, fi, 1));
                    vec![Stmt::If(c, Box::new(Stmt::Block(vec![me, other])), None)]
                } else {
                    vec![Stmt::If(c, Box::new(me), None)]
                }
            }
            4 if self.callable(fc, false).is_empty() => vec![self.assign_stmt(fc)],
            4 => {
                self.label("call-stmt");
                Self::new_expr_ctx(fc);
                let c = self.callable(fc, false);
                let fi = *self.g.pick(&c);
                vec![Stmt::Expr(self.call_expr(fc, fi, 1))]
            }
            5 => {
                self.label("nested-block");
                vec![self.body_block(fc)]
            }
            6 => {
                if fc.in_for > 0 && self.g.chance(1, 2) {
                    self.label(if fc.in_switch > 0 { "continue-inside-switch" } else { "continue" });
                    Self::new_expr_ctx(fc);
                    let c = self.condition(fc, 1);
                    vec![Stmt::If(c, Box::new(Stmt::Continue), None)]
                } else if fc.in_switch == 0 {
                    self.label("break");
                    Self::new_expr_ctx(fc);
                    let c = self.condition(fc, 1);
                    vec![Stmt::If(c, Box::new(Stmt::Break), None)]
                } else {
                    vec![self.assign_stmt(fc)]
                }
            }
            7 => {
                self.label("goto");
                fc.labels += 1;
                let l = format!("L{}_{}", fc.idx, fc.labels);
                Self::new_expr_ctx(fc);
                let c = self.condition(fc, 1);
                let skipped = self.assign_stmt(fc);
                // (`done: ;` — the label of an empty statement, the usual way to jump to the end of a block)
                let target = if self.g.chance(1, 4) { Stmt::Empty } else { self.assign_stmt(fc) };
                vec![Stmt::If(c, Box::new(Stmt::Goto(l.clone())), None), skipped, Stmt::Label(l, Box::new(target))]
            }
            8 => {
                self.label("early-return");
                Self::new_expr_ctx(fc);
                let c = self.condition(fc, 1);
                Self::new_expr_ctx(fc);
                let r = match fc.ret {
                    Some(t) => Some(self.rvalue(fc, t, 1)),
                    None => None,
                };
                vec![Stmt::If(c, Box::new(Stmt::Return(r)), None)]
            }
            9 => match self.ptr_stmt(fc) {
                Some(s) => {
                    self.label("pointer");
                    vec![s]
                }
                None => vec![self.assign_stmt(fc)],
            },
            10 => vec![self.asm_stmt(fc)],
            11 => self.hw_stmt(fc),
            12 => self.stress_pattern(fc),
            13 => self.flags_across_call(fc, true),
            14 => self.flags_across_call(fc, false),
            _ => self.call_then_constant(fc),
        }
    }

    /// `o--; f(); if (o) ...`: what the generator believes about the flags before a call must not
    /// survive it (the callee, inlined or not, changes them)
    fn flags_across_call(&mut self, fc: &mut FnCtx, with_call: bool) -> Vec<Stmt> {
        let mut ops: Vec<(String, Ty)> = self.visible_scalars(fc, None, true);
        ops.retain(|(n, t)| !fc.protected.contains(n) && *t != Ty::Ptr && (self.cfg.shorts || is8(*t)));
        let c = if with_call { self.callable(fc, false) } else { vec![] };
        if ops.is_empty() || (with_call && c.is_empty()) {
            return vec![self.assign_stmt(fc)];
        }
        if !with_call && self.g.chance(1, 4) {
            // neighbouring elements of one array (or the two bytes of one object) are different
            // operands: flags that describe ar[i] say nothing about ar[j]
            let arrs: Vec<(String, Ty, usize)> = self.arrays(fc, None, true).into_iter().filter(|(_, _, n)| *n >= 2).collect();
            let srcs: Vec<String> = ops.iter().filter(|(_, t)| is8(*t)).map(|(n, _)| n.clone()).collect();
            if !arrs.is_empty() && !srcs.is_empty() {
                self.label("flags-of-neighbour-element");
                let (ar, _, n) = self.g.pick(&arrs).clone();
                let i = self.g.below(n) as i32;
                let mut j = self.g.below(n) as i32;
                if j == i {
                    j = (i + 1) % n as i32;
                }
                let ei = LValue::Index(ar.clone(), Box::new(Expr::lit(i)));
                let ej = Expr::Lv(LValue::Index(ar.clone(), Box::new(Expr::lit(j))));
                let s1 = match self.g.below(3) {
                    0 => Expr::assign(ei, Expr::var(&self.g.pick(&srcs).clone())),
                    1 => Expr::IncDec(true, self.g.chance(1, 2), ei),
                    _ => Expr::IncDec(false, self.g.chance(1, 2), ei),
                };
                let cond = match self.g.below(3) {
                    0 => ej,
                    1 => Expr::bin(BinOp::Eq, ej, Expr::lit(0)),
                    _ => Expr::bin(BinOp::Ne, ej, Expr::lit(0)),
                };
                let t = self.g.pick(&srcs).clone();
                let k1 = self.g.range(0, 200) as i32;
                let k2 = self.g.range(0, 200) as i32;
                // the tested element may be reached through a register holding its index
                let reg = if self.g.chance(1, 2) { "X" } else { "Y" };
                if self.g.chance(1, 3) && !fc.protected.contains(reg) {
                    let via = Expr::Lv(LValue::Index(ar.clone(), Box::new(Expr::var(reg))));
                    let cond = if self.g.chance(1, 2) { via } else { Expr::bin(BinOp::Ne, via, Expr::lit(0)) };
                    return vec![
                        Stmt::Expr(Expr::assign(LValue::Var(reg.into()), Expr::lit(j))),
                        Stmt::Expr(s1),
                        Stmt::If(
                            cond,
                            Box::new(Stmt::Expr(Expr::assign(LValue::Var(t.clone()), Expr::lit(k1)))),
                            Some(Box::new(Stmt::Expr(Expr::assign(LValue::Var(t), Expr::lit(k2))))),
                        ),
                    ];
                }
                return vec![
                    Stmt::Expr(s1),
                    Stmt::If(
                        cond,
                        Box::new(Stmt::Expr(Expr::assign(LValue::Var(t.clone()), Expr::lit(k1)))),
                        Some(Box::new(Stmt::Expr(Expr::assign(LValue::Var(t), Expr::lit(k2))))),
                    ),
                ];
            }
        }
        self.label(if with_call { "flags-across-call" } else { "flags-then-test" });
        let (o, oty) = self.g.pick(&ops).clone();
        let others: Vec<String> = ops.iter().filter(|(n, t)| *n != o && is8(*t)).map(|(n, _)| n.clone()).collect();
        let s1 = match self.g.below(5) {
            0 | 1 | 2 => Expr::IncDec(self.g.chance(1, 2), self.g.chance(1, 2), LValue::Var(o.clone())),
            3 if !others.is_empty() => Expr::assign(LValue::Var(o.clone()), Expr::var(&self.g.pick(&others).clone())),
            _ => Expr::Assign(Some(*self.g.pick(&[BinOp::Add, BinOp::Sub, BinOp::And, BinOp::Or])), LValue::Var(o.clone()), Box::new(Expr::lit(self.g.range(1, 9) as i32))),
        };
        let mut v = vec![Stmt::Expr(s1)];
        if with_call {
            Self::new_expr_ctx(fc);
            let fi = *self.g.pick(&c);
            v.push(Stmt::Expr(self.call_expr(fc, fi, 1)));
        }
        let cond = match self.g.below(if oty.signed() { 6 } else { 4 }) {
            0 => Expr::var(&o),
            1 => Expr::Un(UnOp::LNot, Box::new(Expr::var(&o))),
            2 => Expr::bin(BinOp::Eq, Expr::var(&o), Expr::lit(0)),
            3 => Expr::bin(BinOp::Ne, Expr::var(&o), Expr::lit(0)),
            4 => Expr::bin(BinOp::Lt, Expr::var(&o), Expr::lit(0)),
            _ => Expr::bin(BinOp::Ge, Expr::var(&o), Expr::lit(0)),
        };
        let t = if others.is_empty() { o.clone() } else { self.g.pick(&others).clone() };
        let then = Stmt::Expr(Expr::assign(LValue::Var(t), Expr::lit(self.g.range(0, 200) as i32)));
        v.push(Stmt::If(cond, Box::new(then), None));
        v
    }

    /// `v = f(); w = k;` / `if (f() == k) w = k;`: what the optimizer knows about A at the end of the
    /// callee (inlined or not) must not be used for the constant that follows
    fn call_then_constant(&mut self, fc: &mut FnCtx) -> Vec<Stmt> {
        let c = self.callable(fc, true);
        let tg: Vec<String> = self.visible_scalars(fc, Some(true), true).into_iter().map(|(n, _)| n).filter(|n| n != "X" && n != "Y" && !fc.protected.contains(n)).collect();
        if c.is_empty() || tg.len() < 2 {
            return vec![self.assign_stmt(fc)];
        }
        self.label("call-then-constant");
        Self::new_expr_ctx(fc);
        let fi = *self.g.pick(&c);
        let call = self.call_expr(fc, fi, 1);
        let k = self.g.below(3) as i32;
        let v = self.g.pick(&tg).clone();
        let w = tg.iter().find(|n| **n != v).cloned().unwrap();
        match self.g.below(8) {
            // an addition or subtraction leaves a carry, then the function is called with constants: inlined, its
            // first instructions follow the caller's with everything the optimizer knows about the registers
            6 | 7 => {
                // (an inline helper if there is one)
                let inl: Vec<usize> = c.iter().cloned().filter(|i| self.helpers[*i].inline).collect();
                let fi = if inl.is_empty() { fi } else { *self.g.pick(&inl) };
                let f = self.helpers[fi].clone();
                let args: Vec<Expr> = f.params.iter().map(|(_, t)| if *t == Ty::Ptr { Expr::lit(0) } else { Expr::lit(self.g.below(12) as i32) }).collect();
                let op = if self.g.chance(1, 2) { BinOp::Add } else { BinOp::Sub };
                vec![
                    Stmt::Expr(Expr::assign(LValue::Var(w.clone()), Expr::bin(op, Expr::var(&w), Expr::lit(1 + self.g.below(200) as i32)))),
                    Stmt::Expr(Expr::assign(LValue::Var(v), Expr::Call(f.name.clone(), args))),
                ]
            }
            // the result is stored and tested at once: the flags the callee returns with are those of its result
            4 | 5 => {
                let t = match self.g.below(3) {
                    0 => Expr::var(&v),
                    1 => Expr::Un(UnOp::LNot, Box::new(Expr::var(&v))),
                    _ => Expr::bin(BinOp::Ne, Expr::var(&v), Expr::lit(0)),
                };
                vec![Stmt::Expr(Expr::assign(LValue::Var(v), call)), Stmt::If(t, Box::new(Stmt::Expr(Expr::IncDec(true, false, LValue::Var(w)))), None)]
            }
            0 => vec![Stmt::Expr(Expr::assign(LValue::Var(v), call)), Stmt::Expr(Expr::assign(LValue::Var(w), Expr::lit(k)))],
            1 => vec![Stmt::If(call, Box::new(Stmt::Expr(Expr::assign(LValue::Var(w), Expr::lit(k)))), None)],
            2 => vec![Stmt::If(Expr::Un(UnOp::LNot, Box::new(call)), Box::new(Stmt::Expr(Expr::assign(LValue::Var(w), Expr::lit(k)))), None)],
            _ => vec![Stmt::If(
                Expr::bin(if self.g.chance(1, 2) { BinOp::Eq } else { BinOp::Ne }, call, Expr::lit(k)),
                Box::new(Stmt::Expr(Expr::assign(LValue::Var(w), Expr::lit(k)))),
                None,
            )],
        }
    }

    fn body_block(&mut self, fc: &mut FnCtx) -> Stmt {
        fc.nest += 1;
        let n = 1 + self.g.below(3);
        let v = self.stmt_list(fc, n);
        fc.nest -= 1;
        Stmt::Block(v)
    }

    /// statement sequences aimed at the peephole optimizer: same operand loaded/stored
    /// repeatedly, index registers changed between indexed accesses, known-immediate compares
    fn stress_pattern(&mut self, fc: &mut FnCtx) -> Vec<Stmt> {
        let mut out = self.stress_pattern_inner(fc);
        // (decided by a hash of what was generated, no draw: the other programs stay the same)
        // an `||` chain whose else label is reached from every test of the chain, then the last operand tested
        // again right there: the flags at that label are not those of the last operand
        let v8: Vec<String> = self
            .visible_scalars(fc, Some(true), true)
            .into_iter()
            .map(|x| x.0)
            .filter(|n| n != "X" && n != "Y" && !n.starts_with("hv"))
            .collect();
        let h = crate::pbt::hash_str(&format!("orchain:{}:{:?}", fc.idx, out));
        if v8.len() >= 3 && h % 6 == 0 && !fc.touched.contains("#sidefx") {
            self.label("opt-stress:or-chain-then-retest");
            let n = v8.len() as u64;
            let a = v8[(h / 6 % n) as usize].clone();
            let b = v8[((h / 6 % n) + 1 + (h / 600 % (n - 1))) as usize % v8.len()].clone();
            let c = v8.iter().find(|x| **x != a && **x != b).cloned().unwrap();
            let k = |i: u64| Expr::lit(1 + ((h >> (20 + 4 * i)) % 9) as i32);
            let chain = Expr::bin(BinOp::LOr, Expr::var(&a), Expr::var(&b));
            let inner = Stmt::If(
                if h / 7000 % 3 == 0 { Expr::Un(UnOp::LNot, Box::new(Expr::var(&b))) } else { Expr::var(&b) },
                Box::new(Stmt::Expr(Expr::assign(LValue::Var(c.clone()), k(0)))),
                Some(Box::new(Stmt::Expr(Expr::assign(LValue::Var(c.clone()), k(1))))),
            );
            let other = Stmt::Expr(Expr::assign(LValue::Var(c.clone()), k(2)));
            out.push(if h / 70000 % 2 == 0 {
                Stmt::If(chain, Box::new(Stmt::Block(vec![inner])), Some(Box::new(other)))
            } else {
                Stmt::If(Expr::Un(UnOp::LNot, Box::new(chain)), Box::new(other), Some(Box::new(Stmt::Block(vec![inner]))))
            });
        }
        out
    }

    fn stress_pattern_inner(&mut self, fc: &mut FnCtx) -> Vec<Stmt> {
        self.label("opt-stress");
        let v8: Vec<(String, Ty)> = self.visible_scalars(fc, Some(true), true).into_iter().filter(|(n, _)| n != "X" && n != "Y").collect();
        if v8.len() < 2 {
            return vec![self.assign_stmt(fc)];
        }
        let a = self.g.pick(&v8).0.clone();
        let mut b = self.g.pick(&v8).0.clone();
        if b == a {
            // two different variables (a self-assignment is a no-op the compiler mishandles)
            b = v8.iter().map(|x| x.0.clone()).find(|n| *n != a).unwrap_or(b);
        }
        let k = self.g.range(0, 5) as i32;
        let arrs = self.arrays(fc, Some(true), true);
        let px = fc.protected.contains("X");
        let py = fc.protected.contains("Y");
        if self.cfg.hw && v8.len() >= 4 && self.g.chance(1, 12) {
            // an explicit load changes the accumulator like any other load: a constant that was in it before
            // must be loaded again afterwards
            let names: Vec<String> = v8.iter().map(|x| x.0.clone()).filter(|n| !n.starts_with("hv")).collect();
            if names.len() >= 4 {
                let kk = *self.g.pick(&[0, 0, 1, 255]);
                return vec![
                    Stmt::Expr(Expr::assign(LValue::Var(names[0].clone()), Expr::lit(kk))),
                    Stmt::Load(Expr::var(&names[1])),
                    Stmt::Store(LValue::Var(names[2].clone())),
                    Stmt::Expr(Expr::assign(LValue::Var(names[3].clone()), Expr::lit(kk))),
                ];
            }
        }
        if let Some((f, kc)) = self.cmp_helper.clone() {
            let ph = crate::pbt::hash_str(&format!("{}:{}:{}:{}", a, b, k, fc.idx));
            if ph % 5 == 0 && !fc.touched.contains("#sidefx") {
                // an addition or subtraction leaves its carry, then the comparison of a constant with a constant
                // follows at once (expanded in line): the branches on the carry need the comparison
                let op = if ph / 5 % 2 == 0 { BinOp::Add } else { BinOp::Sub };
                let arg = (kc + (ph / 10 % 7) as i32 - 3).max(0);
                return vec![
                    Stmt::Expr(Expr::assign(LValue::Var(a.clone()), Expr::bin(op, Expr::var(&b), Expr::lit(1 + (ph / 70 % 200) as i32)))),
                    Stmt::Expr(Expr::Call(f.name.clone(), vec![Expr::lit(arg)])),
                ];
            }
        }
        let pick = self.g.below(if self.cfg.addr_low_byte { 56 } else { 53 });
        // (38..40 need cfg.addr_low_byte; the numbering of the other patterns is kept)
        let pick = if !self.cfg.addr_low_byte && pick >= 38 { pick + 3 } else { pick };
        match pick {
            53 | 54 | 55 => {
                // two paths that meet at a label, one of which ends with Y given back (its flags are those of
                // Y), the value stored and tested right after the label
                let big: Vec<(String, Ty, usize)> = arrs.iter().filter(|(_, _, n)| *n >= 2).cloned().collect();
                if big.is_empty() || v8.len() < 3 {
                    return vec![self.assign_stmt(fc)];
                }
                let (ar, _, n) = self.g.pick(&big).clone();
                let names: Vec<String> = v8.iter().map(|x| x.0.clone()).filter(|x| *x != a && *x != b).collect();
                if names.is_empty() {
                    return vec![self.assign_stmt(fc)];
                }
                let c = self.g.pick(&names).clone();
                let mask = (n.next_power_of_two() / 2).max(1) as i32 - 1;
                let idx = if mask == 0 { Expr::lit(0) } else { Expr::bin(BinOp::And, Expr::var(&b), Expr::lit(mask)) };
                let elem = Expr::Lv(LValue::Index(ar.clone(), Box::new(idx)));
                let other = Expr::lit(*self.g.pick(&[0, 0, 1, 7]));
                let t = if self.g.chance(2, 3) {
                    Expr::Ternary(Box::new(Expr::var(&c)), Box::new(elem), Box::new(other))
                } else {
                    Expr::Ternary(Box::new(Expr::var(&c)), Box::new(other), Box::new(elem))
                };
                let cond = match self.g.below(3) {
                    0 => Expr::var(&a),
                    1 => Expr::bin(BinOp::Ne, Expr::var(&a), Expr::lit(0)),
                    _ => Expr::bin(BinOp::Eq, Expr::var(&a), Expr::lit(0)),
                };
                vec![
                    Stmt::Expr(Expr::assign(LValue::Var(a.clone()), t)),
                    Stmt::If(cond, Box::new(Stmt::Expr(Expr::assign(LValue::Var(c.clone()), Expr::lit(k + 1)))), None),
                ]
            }
            50 | 51 | 52 => {
                // a 16-bit element stepped through an index register and tested right away: the flags left by
                // the step are those of one of its bytes only
                let wa: Vec<(String, Ty, usize)> = self.arrays(fc, Some(false), true);
                let reg = if !px && (py || self.g.chance(2, 3)) { "X" } else if !py { "Y" } else { return vec![self.assign_stmt(fc)] };
                if wa.is_empty() {
                    return vec![self.assign_stmt(fc)];
                }
                let (ar, aty, n) = self.g.pick(&wa).clone();
                let i = self.g.below(n.min(100)) as i32;
                let start = *self.g.pick(&[0x00ff, 0xffff, 0x0100, 0, 1, 0x7fff, 0x01ff, 0x007f, 0x0080, 0x8000]);
                let up = self.g.chance(2, 3);
                let el = LValue::Index(ar.clone(), Box::new(Expr::var(reg)));
                let mut out = vec![
                    Stmt::Expr(Expr::assign(LValue::Index(ar.clone(), Box::new(Expr::lit(i))), Expr::Lit(start, LitFmt::Hex))),
                    Stmt::Expr(Expr::assign(LValue::Var(reg.into()), Expr::lit(i))),
                    Stmt::Expr(Expr::IncDec(up, self.g.chance(1, 2), el.clone())),
                ];
                let cond = match self.g.below(if aty == Ty::I16 { 7 } else { 3 }) {
                    3 | 4 => Expr::bin(BinOp::Lt, Expr::Lv(el), Expr::lit(0)),
                    5 | 6 => Expr::bin(BinOp::Ge, Expr::Lv(el), Expr::lit(0)),
                    0 => Expr::Lv(el),
                    1 => Expr::bin(BinOp::Ne, Expr::Lv(el), Expr::lit(0)),
                    _ => Expr::bin(BinOp::Eq, Expr::Lv(el), Expr::lit(0)),
                };
                out.push(Stmt::If(cond, Box::new(Stmt::Expr(Expr::assign(LValue::Var(a.clone()), Expr::lit(k + 1)))), None));
                out
            }
            44 | 45 | 46 => {
                // one array read through both index registers in two tests that follow each other: what the
                // flags describe after the first is not what the second needs, although only the register differs
                let big: Vec<(String, Ty, usize)> = arrs.iter().filter(|(_, _, n)| *n >= 2).cloned().collect();
                if px || py || big.is_empty() {
                    return vec![self.assign_stmt(fc)];
                }
                let (ar, _, n) = self.g.pick(&big).clone();
                let i = self.g.below(n) as i32;
                let j = (i + 1 + self.g.below(n - 1) as i32) % n as i32;
                let ex = Expr::Lv(LValue::Index(ar.clone(), Box::new(Expr::var("X"))));
                let ey = Expr::Lv(LValue::Index(ar.clone(), Box::new(Expr::var("Y"))));
                let mut out = vec![
                    Stmt::Expr(Expr::assign(LValue::Var("X".into()), Expr::lit(i))),
                    Stmt::Expr(Expr::assign(LValue::Var("Y".into()), Expr::lit(j))),
                ];
                let kk = *self.g.pick(&[0, 0, 1, 5]);
                let k2 = *self.g.pick(&[0, 1, 1, 7]);
                let (first, second) = if self.g.chance(1, 2) { (ey.clone(), ex.clone()) } else { (ex.clone(), ey.clone()) };
                let first_is_x = matches!(&first, Expr::Lv(LValue::Index(_, r)) if matches!(&**r, Expr::Lv(LValue::Var(v)) if v == "X"));
                let (fr, sr) = if first_is_x { ("X", "Y") } else { ("Y", "X") };
                // the element tested second is given its value first, the one tested first last
                out.push(Stmt::Expr(Expr::assign(LValue::Index(ar.clone(), Box::new(Expr::var(sr))), Expr::lit(kk))));
                match self.g.below(3) {
                    0 => out.push(Stmt::Expr(Expr::assign(LValue::Index(ar.clone(), Box::new(Expr::var(fr))), Expr::lit(k2)))),
                    1 => {
                        out.push(Stmt::Expr(Expr::assign(LValue::Index(ar.clone(), Box::new(Expr::var(fr))), Expr::lit(k2))));
                        out.push(Stmt::Expr(Expr::IncDec(self.g.chance(1, 2), false, LValue::Index(ar.clone(), Box::new(Expr::var(fr))))));
                    }
                    _ => {}
                }
                let nz = |e: Expr, g: &mut G| if g.chance(1, 2) { Expr::bin(BinOp::Ne, e, Expr::lit(0)) } else { e };
                let cond = match self.g.below(5) {
                    0 | 1 => {
                        let l = nz(first, &mut self.g);
                        let r = nz(second, &mut self.g);
                        Expr::bin(BinOp::LAnd, l, r)
                    }
                    2 => Expr::bin(BinOp::LOr, Expr::bin(BinOp::Eq, first, Expr::lit(0)), Expr::bin(BinOp::Eq, second, Expr::lit(0))),
                    3 => {
                        let l = nz(first, &mut self.g);
                        let r = nz(second, &mut self.g);
                        Expr::bin(BinOp::LOr, l, r)
                    }
                    // a single test of the element that was not written last
                    _ => nz(second, &mut self.g),
                };
                out.push(Stmt::If(cond, Box::new(Stmt::Expr(Expr::assign(LValue::Var(a.clone()), Expr::lit(k + 1)))), None));
                out
            }
            47 | 48 | 49 => {
                // an index register loaded from the table it indexes, and the table read again through it: the
                // second read uses the new value of the register
                let big: Vec<(String, Ty, usize)> = arrs.iter().filter(|(_, _, n)| *n >= 3).cloned().collect();
                let reg = if !px && (py || self.g.chance(1, 2)) { "X" } else if !py { "Y" } else { return vec![self.assign_stmt(fc)] };
                if big.is_empty() {
                    return vec![self.assign_stmt(fc)];
                }
                let (ar, _, n) = self.g.pick(&big).clone();
                let n = n.min(200);
                let x0 = self.g.below(n) as i32;
                let k1 = (x0 + 1 + self.g.below(n - 1) as i32) % n as i32;
                let j = (k1 + 1 + self.g.below(n - 1) as i32) % n as i32;
                let at = |i: i32| LValue::Index(ar.clone(), Box::new(Expr::lit(i)));
                let through = Expr::Lv(LValue::Index(ar.clone(), Box::new(Expr::var(reg))));
                let mut out = vec![
                    Stmt::Expr(Expr::assign(at(x0), Expr::lit(k1))),
                    Stmt::Expr(Expr::assign(at(k1), Expr::lit(j))),
                    Stmt::Expr(Expr::assign(LValue::Var(reg.into()), Expr::lit(x0))),
                    Stmt::Expr(Expr::assign(LValue::Var(reg.into()), through.clone())),
                ];
                match self.g.below(3) {
                    0 => out.push(Stmt::Expr(Expr::assign(LValue::Var(a.clone()), through))),
                    1 => {
                        out.push(Stmt::Expr(Expr::assign(LValue::Var(reg.into()), through)));
                        out.push(Stmt::Expr(Expr::assign(LValue::Var(a.clone()), Expr::var(reg))));
                    }
                    _ => out.push(Stmt::If(
                        Expr::bin(if self.g.chance(1, 2) { BinOp::Eq } else { BinOp::Ne }, through, Expr::lit(j)),
                        Box::new(Stmt::Expr(Expr::assign(LValue::Var(a.clone()), Expr::lit(k + 1)))),
                        None,
                    )),
                }
                out
            }
            41 | 42 | 43 => {
                // the high byte of an element of a 16-bit array, reached with a constant index and with the
                // same index in a register (the two bytes of an element are not neighbours in memory)
                let wa: Vec<(String, Ty, usize)> = self.arrays(fc, Some(false), true);
                if wa.is_empty() || px {
                    return vec![self.assign_stmt(fc)];
                }
                let (ar, _, n) = self.g.pick(&wa).clone();
                let kk = self.g.below(n) as i32;
                let hi = |i: Expr| Expr::bin(BinOp::Shr, Expr::Lv(LValue::Index(ar.clone(), Box::new(i))), Expr::lit(8));
                vec![
                    Stmt::Expr(Expr::assign(LValue::Var(a.clone()), hi(Expr::lit(kk)))),
                    Stmt::Expr(Expr::assign(LValue::Var("X".into()), Expr::lit(kk))),
                    Stmt::Expr(Expr::assign(LValue::Var(b.clone()), hi(Expr::var("X")))),
                ]
            }
            38 | 39 | 40 => {
                // the low byte of an array address (a constant that only the assembler knows) compared with
                // a number: the optimizer cannot decide the comparison from the spelling of the two operands
                let reg = if !px && (py || self.g.chance(1, 2)) { "X" } else if !py { "Y" } else { return vec![self.assign_stmt(fc)] };
                if arrs.is_empty() {
                    return vec![self.assign_stmt(fc)];
                }
                let (ar, _, _) = self.g.pick(&arrs).clone();
                // a guess of the address: zero-page variables are laid out from $80 in declaration order
                let mut guess = 0x80i32;
                for gl in &self.globals {
                    if gl.name == ar {
                        break;
                    }
                    if gl.mem == MemQual::Default {
                        let w = if gl.ty.bits() == 16 { 2 } else { 1 };
                        guess += match &gl.kind {
                            VarKind::Scalar => w,
                            VarKind::Array(n) => w * *n as i32,
                            _ => 0,
                        };
                    }
                }
                let op = if self.g.chance(1, 2) { BinOp::Ne } else { BinOp::Eq };
                let mut out = vec![];
                // the high byte of the address of a table in ROM (tables are laid out from $8000)
                let tables: Vec<String> = self.globals.iter().filter(|g| matches!(g.kind, VarKind::ConstTable(_))).map(|g| g.name.clone()).collect();
                if !tables.is_empty() && self.g.chance(1, 2) {
                    let t = self.g.pick(&tables).clone();
                    for guess in [0x80, 0x81, 0x80] {
                        out.push(Stmt::Expr(Expr::assign(LValue::Var(reg.into()), Expr::bin(BinOp::Shr, Expr::AddrOf(t.clone()), Expr::lit(8)))));
                        out.push(Stmt::If(
                            Expr::bin(op, Expr::var(reg), Expr::lit(guess)),
                            Box::new(Stmt::Expr(Expr::IncDec(true, false, LValue::Var(a.clone())))),
                            None,
                        ));
                    }
                    return out;
                }
                // the register is loaded again before each comparison (a label forgets what is known)
                for d in [0, 1, -1, 2] {
                    out.push(Stmt::Expr(Expr::assign(LValue::Var(reg.into()), Expr::AddrOf(ar.clone()))));
                    out.push(Stmt::If(
                        Expr::bin(op, Expr::var(reg), Expr::lit(((guess + d) & 255).max(0))),
                        Box::new(Stmt::Expr(Expr::IncDec(true, false, LValue::Var(a.clone())))),
                        None,
                    ));
                }
                out
            }
            35 | 36 | 37 => {
                // a register is loaded with a constant, something else sets the flags, the same constant is
                // loaded again (a load the optimizer finds redundant), the register is stored (no flags) and
                // then tested: the flags of the second load are needed although no branch follows it directly
                let reg = if !px && (py || self.g.chance(1, 2)) { "X" } else if !py { "Y" } else { return vec![self.assign_stmt(fc)] };
                let other = if reg == "X" { "Y" } else { "X" };
                if fc.protected.contains(other) || arrs.is_empty() {
                    return vec![self.assign_stmt(fc)];
                }
                let (ar, _, n) = self.g.pick(&arrs).clone();
                let kk = self.g.below(n.min(3)) as i32;
                let elem = Expr::Lv(LValue::Index(ar, Box::new(Expr::var(reg))));
                let t = if self.g.chance(1, 2) { Expr::var(reg) } else { Expr::Un(UnOp::LNot, Box::new(Expr::var(reg))) };
                vec![
                    Stmt::Expr(Expr::assign(LValue::Var(reg.into()), Expr::lit(kk))),
                    Stmt::Expr(Expr::assign(LValue::Var(other.into()), elem)),
                    Stmt::Expr(Expr::assign(LValue::Var(reg.into()), Expr::lit(kk))),
                    Stmt::Expr(Expr::assign(LValue::Var(a.clone()), Expr::var(reg))),
                    Stmt::If(t, Box::new(Stmt::Expr(Expr::assign(LValue::Var(b.clone()), Expr::lit(k + 1)))), None),
                ]
            }
            32 | 33 | 34 => {
                // a loop counted in a register from a constant, whose first test is decided at compile time
                // (and folded by the optimizer); the body starts by comparing the same register with a
                // constant: what was known before the loop is not known at its head
                let reg = if !px && (py || self.g.chance(1, 2)) { "X" } else if !py { "Y" } else { return vec![self.assign_stmt(fc)] };
                let c0 = *self.g.pick(&[0, 0, 1, 2, 5]);
                let n = c0 + 2 + self.g.below(3) as i32;
                let cmpv = if self.g.chance(1, 2) { c0 } else { c0 + 1 };
                let op = if self.g.chance(1, 2) { BinOp::Eq } else { BinOp::Ne };
                let first = Stmt::If(
                    Expr::bin(op, Expr::var(reg), Expr::lit(cmpv)),
                    Box::new(Stmt::Expr(Expr::IncDec(true, false, LValue::Var(a.clone())))),
                    None,
                );
                let second = Stmt::Expr(Expr::assign(LValue::Var(b.clone()), Expr::lit(k)));
                let body = Stmt::Block(vec![first, second]);
                let cond = Expr::bin(BinOp::Ne, Expr::var(reg), Expr::lit(n));
                let upd = Expr::IncDec(true, self.g.chance(1, 2), LValue::Var(reg.into()));
                if self.g.chance(1, 2) {
                    vec![Stmt::For(Some(Expr::assign(LValue::Var(reg.into()), Expr::lit(c0))), Some(cond), Some(upd), Box::new(body))]
                } else {
                    let mut v = match body {
                        Stmt::Block(v) => v,
                        s => vec![s],
                    };
                    v.push(Stmt::Expr(upd));
                    vec![Stmt::Expr(Expr::assign(LValue::Var(reg.into()), Expr::lit(c0))), Stmt::While(cond, Box::new(Stmt::Block(v)))]
                }
            }
            29 | 30 | 31 => {
                // a subtraction without borrow leaves the carry set, then a 16-bit value is composed from
                // two bytes: the byte pass that adds nothing must not let the old carry into the other one
                let wide: Vec<(String, Ty)> = self.visible_scalars(fc, Some(false), true).into_iter().filter(|(n, _)| !fc.protected.contains(n)).collect();
                if wide.is_empty() {
                    return vec![self.assign_stmt(fc)];
                }
                let w = self.g.pick(&wide).0.clone();
                let hi = Expr::bin(BinOp::Shl, Expr::var(&a), Expr::lit(8));
                let lo = if self.g.chance(2, 3) { Expr::var(&b) } else { Expr::lit(self.g.below(300) as i32) };
                let op = if self.g.chance(2, 3) { BinOp::Add } else { BinOp::Or };
                let composed = if self.g.chance(1, 2) { Expr::bin(op, hi, lo) } else { Expr::bin(op, lo, hi) };
                vec![
                    Stmt::Expr(Expr::assign(LValue::Var(b.clone()), Expr::bin(BinOp::Sub, Expr::var(&b), Expr::lit(0)))),
                    Stmt::Expr(Expr::assign(LValue::Var(w), composed)),
                ]
            }
            26 | 27 | 28 => {
                // a register holding a small or large constant is stepped across the 0 / 255 boundary and then
                // compared with the wrapped value: what the optimizer believes the register holds must wrap
                // like the register does
                let reg = if !px && (py || self.g.chance(1, 2)) { "X" } else if !py { "Y" } else { return vec![self.assign_stmt(fc)] };
                let up = self.g.chance(1, 2);
                let start = if up { 255 - self.g.below(3) as i32 } else { self.g.below(3) as i32 };
                let steps = 1 + self.g.below(3) as i32;
                let end = if up { (start + steps) & 255 } else { (start - steps) & 255 };
                let mut out = vec![Stmt::Expr(Expr::assign(LValue::Var(reg.into()), Expr::lit(start)))];
                for _ in 0..steps {
                    out.push(Stmt::Expr(Expr::IncDec(up, self.g.chance(1, 2), LValue::Var(reg.into()))));
                }
                let op = *self.g.pick(&[BinOp::Ne, BinOp::Eq, BinOp::Ne]);
                let cmp = if self.g.chance(3, 4) { end } else { (end + 1) & 255 };
                out.push(Stmt::If(
                    Expr::bin(op, Expr::var(reg), Expr::lit(cmp)),
                    Box::new(Stmt::Expr(Expr::assign(LValue::Var(a.clone()), Expr::lit(k + 1)))),
                    None,
                ));
                out
            }
            23 | 24 | 25 => {
                // a register is set, a variable is stored, and the variable is then tested by a condition
                // that has something to settle before its branch (a post-increment, a borrowed index
                // register): the flags must still be those of the tested value
                let wide: Vec<(String, Ty)> = self.visible_scalars(fc, Some(false), true).into_iter().filter(|(n, _)| !fc.protected.contains(n)).collect();
                let (tv, is_wide) = if !wide.is_empty() && self.g.chance(1, 2) { (self.g.pick(&wide).0.clone(), true) } else { (a.clone(), false) };
                let kk = *self.g.pick(&[0, 0, 1, 128, 255]);
                let mut out = vec![];
                // the value is first loaded for another variable, so that the accumulator already holds it
                // when the tested variable is stored, with the flags describing the register set in between
                let src = if self.g.chance(2, 3) { Expr::lit(kk) } else { Expr::var(&b) };
                if self.g.chance(3, 4) {
                    let others: Vec<String> = v8.iter().map(|x| x.0.clone()).filter(|n| *n != a && *n != b && *n != tv).collect();
                    if !others.is_empty() {
                        let first = self.g.pick(&others).clone();
                        out.push(Stmt::Expr(Expr::assign(LValue::Var(first), src.clone())));
                    }
                }
                if !py && self.g.chance(1, 2) {
                    out.push(Stmt::Expr(Expr::assign(LValue::Var("Y".into()), Expr::lit(*self.g.pick(&[0, 1, 128])))));
                } else if !px {
                    out.push(Stmt::Expr(Expr::assign(LValue::Var("X".into()), Expr::lit(*self.g.pick(&[0, 1, 128])))));
                }
                out.push(Stmt::Expr(Expr::assign(LValue::Var(tv.clone()), src)));
                let tested = Expr::IncDec(self.g.chance(1, 2), false, LValue::Var(tv.clone()));
                let cond = match self.g.below(6) {
                    0 => tested,
                    1 if !is_wide => Expr::bin(BinOp::Ne, tested, Expr::lit(kk)),
                    2 => Expr::bin(BinOp::Eq, tested, Expr::lit(0)),
                    // the sign test of a 16 bits value only looks at the high byte, the last one stored
                    3 | 4 if is_wide => Expr::bin(if self.g.chance(1, 2) { BinOp::Lt } else { BinOp::Ge }, tested, Expr::lit(0)),
                    _ => Expr::bin(BinOp::Ne, tested, Expr::lit(0)),
                };
                let others: Vec<String> = v8.iter().map(|x| x.0.clone()).filter(|n| *n != a && *n != b && *n != tv).collect();
                let c = if others.is_empty() { b.clone() } else { self.g.pick(&others).clone() };
                // the body may start by testing the variable again: it has changed since the flags were set
                let inner = Stmt::Expr(Expr::assign(LValue::Var(c), Expr::lit(k + 1)));
                let body = if self.g.chance(1, 2) {
                    let t = if self.g.chance(1, 2) { Expr::var(&tv) } else { Expr::Un(UnOp::LNot, Box::new(Expr::var(&tv))) };
                    Stmt::Block(vec![Stmt::If(t, Box::new(inner), None)])
                } else {
                    inner
                };
                out.push(Stmt::If(cond, Box::new(body), None));
                out
            }
            20 | 21 | 22 => {
                // a switch whose last case ends in `break` (a jump to the label that follows it),
                // then the constant of that case is needed again: what one path left in a register
                // is not what the other paths left
                let kk = self.g.range(1, 9) as i32;
                let k1 = kk + 1 + self.g.below(5) as i32;
                let sel = b.clone();
                let others: Vec<String> = v8.iter().map(|x| x.0.clone()).filter(|n| *n != a && *n != sel).collect();
                let c = if others.is_empty() { a.clone() } else { self.g.pick(&others).clone() };
                let first = Case { labels: vec![1], body: vec![Stmt::Expr(Expr::assign(LValue::Var(a.clone()), Expr::lit(k1))), Stmt::Break] };
                let last_body = vec![Stmt::Expr(Expr::assign(LValue::Var(a.clone()), Expr::lit(kk))), Stmt::Break];
                let sw = if self.g.chance(1, 2) {
                    Stmt::Switch(Expr::var(&sel), vec![first], Some(last_body))
                } else {
                    Stmt::Switch(Expr::var(&sel), vec![first, Case { labels: vec![2], body: last_body }], None)
                };
                let mut out = vec![sw];
                if !px && self.g.chance(1, 2) {
                    out.push(Stmt::Expr(Expr::assign(LValue::Var("X".into()), Expr::lit(0))));
                }
                out.push(Stmt::Expr(Expr::assign(LValue::Var(c), Expr::lit(kk))));
                out
            }
            14 | 15 | 16 => {
                // the same constant assigned twice with something in between that changes the flags
                // but not A, then a flag test of the second destination
                let kk = *self.g.pick(&[0, 0, 1, 2, 8, 128, 255]);
                let wide: Vec<(String, Ty)> = self.visible_scalars(fc, Some(false), true).into_iter().filter(|(n, _)| !fc.protected.contains(n)).collect();
                let middle = match self.g.below(6) {
                    0 | 1 if !wide.is_empty() => {
                        let (w, _) = self.g.pick(&wide).clone();
                        Expr::Assign(Some(if self.g.chance(1, 2) { BinOp::Shl } else { BinOp::Shr }), LValue::Var(w), Box::new(Expr::lit(1)))
                    }
                    2 if !px => Expr::assign(LValue::Var("X".into()), Expr::var(&b)),
                    3 if !py => Expr::assign(LValue::Var("Y".into()), Expr::var(&b)),
                    4 if !wide.is_empty() => Expr::IncDec(self.g.chance(1, 2), false, LValue::Var(self.g.pick(&wide).0.clone())),
                    _ => Expr::IncDec(self.g.chance(1, 2), false, LValue::Var(b.clone())),
                };
                let others: Vec<String> = v8.iter().map(|x| x.0.clone()).filter(|n| *n != a && *n != b).collect();
                let c = if others.is_empty() { a.clone() } else { self.g.pick(&others).clone() };
                let cond = match self.g.below(3) {
                    0 => Expr::var(&c),
                    1 => Expr::Un(UnOp::LNot, Box::new(Expr::var(&c))),
                    _ => Expr::bin(BinOp::Ne, Expr::var(&c), Expr::lit(0)),
                };
                let mut out = vec![Stmt::Expr(Expr::assign(LValue::Var(a.clone()), Expr::lit(kk))), Stmt::Expr(middle)];
                // the constant may go to a further variable first (two stores between the load
                // that looks redundant and the test)
                if self.g.chance(1, 2) && b != c && !matches!(out[1], Stmt::Expr(Expr::IncDec(_, _, LValue::Var(ref n))) if *n == b) {
                    out.push(Stmt::Expr(Expr::assign(LValue::Var(b.clone()), Expr::lit(kk))));
                }
                out.push(Stmt::Expr(Expr::assign(LValue::Var(c.clone()), Expr::lit(kk))));
                out.push(Stmt::If(cond, Box::new(Stmt::Expr(Expr::assign(LValue::Var(a), Expr::lit(k + 40)))), None));
                out
            }
            17 | 18 | 19 => {
                // a variable is read into a register, written from another register, read again
                // into the first one (a store must invalidate every spelling of its operand)
                let all: Vec<(String, Ty)> = self.visible_scalars(fc, Some(true), true).into_iter().filter(|(n, _)| n != "X" && n != "Y" && !fc.protected.contains(n)).collect();
                let (v, _) = if all.is_empty() { (a.clone(), Ty::U8) } else { self.g.pick(&all).clone() };
                let others: Vec<String> = v8.iter().map(|x| x.0.clone()).filter(|n| *n != v).collect();
                if others.len() < 2 {
                    return vec![self.assign_stmt(fc)];
                }
                let t1 = self.g.pick(&others).clone();
                let t2 = others.iter().find(|n| **n != t1).cloned().unwrap_or(t1.clone());
                let src: Expr = match self.g.below(3) {
                    0 if !px => Expr::var("X"),
                    1 if !py => Expr::var("Y"),
                    _ => Expr::lit(k + 3),
                };
                if !arrs.is_empty() && !(px && py) && self.g.chance(1, 3) {
                    // the same array element spelled two ways: ar[Y] with Y == k, and ar[k]
                    let (ar, _, n) = self.g.pick(&arrs).clone();
                    let kx = self.g.below(n) as i32;
                    let (ireg, sreg) = if px || (!py && self.g.chance(1, 2)) { ("Y", "X") } else { ("X", "Y") };
                    let via = || Expr::Lv(LValue::Index(ar.clone(), Box::new(Expr::var(ireg))));
                    let src2 = if fc.protected.contains(sreg) { Expr::lit(k + 3) } else { Expr::var(sreg) };
                    return vec![
                        Stmt::Expr(Expr::assign(LValue::Var(ireg.into()), Expr::lit(kx))),
                        Stmt::Expr(Expr::assign(LValue::Var(t1.clone()), via())),
                        Stmt::Expr(Expr::assign(LValue::Index(ar.clone(), Box::new(Expr::lit(kx))), src2)),
                        Stmt::Expr(Expr::assign(LValue::Var(t2), via())),
                        Stmt::Expr(Expr::assign(LValue::Var(t1), Expr::lit(k + 5))),
                    ];
                }
                let store = Stmt::Expr(Expr::assign(LValue::Var(v.clone()), src));
                // (a load whose flags may still be needed is never removed: something that starts
                // with a load of its own follows)
                let tail = Stmt::Expr(Expr::assign(LValue::Var(t1.clone()), Expr::lit(k + 5)));
                match self.g.below(3) {
                    0 => vec![
                        Stmt::Expr(Expr::assign(LValue::Var(t1), Expr::var(&v))),
                        store,
                        Stmt::Expr(Expr::assign(LValue::Var(t2), Expr::var(&v))),
                        tail,
                    ],
                    1 => vec![Stmt::If(
                        Expr::bin(*self.g.pick(&[BinOp::Lt, BinOp::Eq, BinOp::Ne]), Expr::var(&v), Expr::lit(10)),
                        Box::new(Stmt::Block(vec![store, Stmt::Expr(Expr::assign(LValue::Var(t2), Expr::var(&v))), tail])),
                        None,
                    )],
                    _ if !px => vec![
                        Stmt::Expr(Expr::assign(LValue::Var("X".into()), Expr::var(&v))),
                        Stmt::Expr(Expr::assign(LValue::Var(t1), Expr::var("X"))),
                        Stmt::Expr(Expr::assign(LValue::Var(v.clone()), Expr::lit(k + 3))),
                        Stmt::Expr(Expr::assign(LValue::Var("X".into()), Expr::var(&v))),
                        Stmt::Expr(Expr::assign(LValue::Var(t2), Expr::var("X"))),
                    ],
                    _ => vec![
                        Stmt::Expr(Expr::assign(LValue::Var(t1), Expr::var(&v))),
                        store,
                        Stmt::Expr(Expr::assign(LValue::Var(t2), Expr::var(&v))),
                    ],
                }
            }
            11 | 12 | 13 if !(px && py) => {
                // a register mirrors a variable, the variable changes in memory, the register is reloaded
                let all: Vec<(String, Ty)> = self.visible_scalars(fc, None, true).into_iter().filter(|(n, t)| n != "X" && n != "Y" && *t != Ty::Ptr && !fc.protected.contains(n)).collect();
                let (v, _) = if all.is_empty() { (a.clone(), Ty::U8) } else { self.g.pick(&all).clone() };
                let reg = if px || (!py && self.g.chance(1, 2)) { "Y" } else { "X" };
                let lv = LValue::Var(v.clone());
                let modify = match self.g.below(6) {
                    0 => Expr::Assign(Some(BinOp::Shl), lv.clone(), Box::new(Expr::lit(1))),
                    1 => Expr::Assign(Some(BinOp::Shr), lv.clone(), Box::new(Expr::lit(1))),
                    2 => Expr::IncDec(true, false, lv.clone()),
                    3 => Expr::IncDec(false, false, lv.clone()),
                    4 => Expr::Assign(Some(BinOp::Add), lv.clone(), Box::new(Expr::lit(k + 1))),
                    _ => Expr::Assign(Some(BinOp::Xor), lv.clone(), Box::new(Expr::lit(0x55))),
                };
                let mut out = vec![
                    Stmt::Expr(Expr::assign(LValue::Var(reg.into()), Expr::var(&v))),
                    Stmt::Expr(modify),
                    Stmt::Expr(Expr::assign(LValue::Var(reg.into()), Expr::var(&v))),
                ];
                if b != v {
                    out.push(Stmt::Expr(Expr::assign(LValue::Var(b.clone()), Expr::var(reg))));
                }
                out
            }
            8 | 9 | 10 if !arrs.is_empty() && !(px && py) => {
                // indexed read, the index register moves, the "same" indexed operand is read again
                let (ar, _, n) = self.g.pick(&arrs).clone();
                let reg = if px || (!py && self.g.chance(1, 2)) { "Y" } else { "X" };
                let i = if n > 2 { 1 + self.g.below(n - 2) as i32 } else { 0 };
                let step = Expr::IncDec(n <= 2 || self.g.chance(1, 2), self.g.chance(1, 2), LValue::Var(reg.into()));
                let elem = || Expr::Lv(LValue::Index(ar.clone(), Box::new(Expr::var(reg))));
                let mut v = vec![Stmt::Expr(Expr::assign(LValue::Var(reg.into()), Expr::lit(if n <= 2 { 0 } else { i })))];
                if self.g.chance(1, 2) {
                    v.push(Stmt::Expr(Expr::assign(LValue::Var(a.clone()), elem())));
                    v.push(Stmt::Expr(step));
                    v.push(Stmt::Expr(Expr::assign(LValue::Var(b.clone()), elem())));
                } else {
                    let inner = vec![Stmt::Expr(step), Stmt::Expr(Expr::assign(LValue::Var(b.clone()), elem())), Stmt::Expr(Expr::assign(LValue::Var(a.clone()), Expr::lit(k)))];
                    v.push(Stmt::If(Expr::bin(if self.g.chance(1, 2) { BinOp::Eq } else { BinOp::Ne }, elem(), Expr::lit(k)), Box::new(Stmt::Block(inner)), None));
                }
                v
            }
            0 => vec![
                Stmt::Expr(Expr::assign(LValue::Var(a.clone()), Expr::lit(k))),
                Stmt::Expr(Expr::assign(LValue::Var(b.clone()), Expr::var(&a))),
                Stmt::Expr(Expr::assign(LValue::Var(a), Expr::lit(k))),
            ],
            1 if !px => vec![
                Stmt::Expr(Expr::assign(LValue::Var("X".into()), Expr::lit(k))),
                Stmt::If(Expr::bin(BinOp::Eq, Expr::var("X"), Expr::lit(k)), Box::new(Stmt::Expr(Expr::assign(LValue::Var(a), Expr::var("X")))), None),
                Stmt::Expr(Expr::assign(LValue::Var("X".into()), Expr::lit(k))),
            ],
            2 if !arrs.is_empty() && !px => {
                let (ar, _, n) = self.g.pick(&arrs).clone();
                let i = self.g.below(n) as i32;
                let j = self.g.below(n) as i32;
                vec![
                    Stmt::Expr(Expr::assign(LValue::Var("X".into()), Expr::lit(i))),
                    Stmt::Expr(Expr::assign(LValue::Index(ar.clone(), Box::new(Expr::var("X"))), Expr::var(&a))),
                    Stmt::Expr(Expr::assign(LValue::Var("X".into()), Expr::lit(j))),
                    Stmt::Expr(Expr::assign(LValue::Var(b), Expr::Lv(LValue::Index(ar, Box::new(Expr::var("X")))))),
                ]
            }
            3 if !py => vec![
                Stmt::Expr(Expr::assign(LValue::Var("Y".into()), Expr::var(&a))),
                Stmt::Expr(Expr::assign(LValue::Var(b.clone()), Expr::var("Y"))),
                Stmt::Expr(Expr::IncDec(true, false, LValue::Var("Y".into()))),
                Stmt::Expr(Expr::assign(LValue::Var(a), Expr::var("Y"))),
            ],
            4 => vec![
                Stmt::Expr(Expr::assign(LValue::Var(a.clone()), Expr::var(&b))),
                Stmt::If(Expr::bin(BinOp::Ne, Expr::var(&a), Expr::lit(k)), Box::new(Stmt::Expr(Expr::IncDec(true, false, LValue::Var(a.clone())))), None),
                Stmt::Expr(Expr::assign(LValue::Var(b), Expr::var(&a))),
            ],
            5 => vec![
                Stmt::Expr(Expr::assign(LValue::Var(a.clone()), Expr::lit(k))),
                Stmt::Expr(Expr::Assign(Some(BinOp::Add), LValue::Var(a.clone()), Box::new(Expr::lit(k)))),
                Stmt::Expr(Expr::assign(LValue::Var(b), Expr::var(&a))),
            ],
            6 => vec![
                Stmt::Expr(Expr::assign(LValue::Var(a.clone()), Expr::var(&b))),
                Stmt::Expr(Expr::assign(LValue::Var(a.clone()), Expr::var(&b))),
                Stmt::If(Expr::var(&a), Box::new(Stmt::Expr(Expr::assign(LValue::Var(b), Expr::lit(k)))), None),
            ],
            _ => vec![
                Stmt::Expr(Expr::assign(LValue::Var(a.clone()), Expr::bin(BinOp::And, Expr::var(&b), Expr::lit(0xff)))),
                Stmt::Expr(Expr::assign(LValue::Var(b.clone()), Expr::bin(BinOp::Or, Expr::var(&a), Expr::lit(0)))),
                Stmt::Expr(Expr::assign(LValue::Var(a), Expr::var(&b))),
            ],
        }
    }

    fn long_filler(&mut self, fc: &mut FnCtx, bytes: usize) -> Vec<Stmt> {
        // each 16-bit add is ~13 bytes of code; 8-bit assignments ~4-7
        let mut v = vec![];
        let n = bytes / 6;
        // 16-bit tables (ROM) and arrays read into a register through the other index register: the only
        // accesses whose size depends on both the instruction and the memory class of the operand
        let wide: Vec<String> = self
            .globals
            .iter()
            .filter(|g| g.ty.bits() == 16 && g.ty != Ty::Ptr && matches!(g.kind, VarKind::ConstTable(_) | VarKind::Array(_)))
            .map(|g| g.name.clone())
            .collect();
        for _ in 0..n {
            if let Some(p) = &self.pad_helper {
                if self.g.chance(1, 5) {
                    // the declared size of the statement is what the callers are measured with, also
                    // where the helper is expanded in line
                    v.push(Stmt::Expr(Expr::Call(p.name.clone(), vec![])));
                    continue;
                }
            }
            if !wide.is_empty() && !fc.protected.contains("X") && !fc.protected.contains("Y") && self.g.chance(1, 6) {
                let t = self.g.pick(&wide).clone();
                let (dst, idx) = if self.g.chance(1, 2) { ("X", "Y") } else { ("Y", "X") };
                v.push(Stmt::Expr(Expr::assign(LValue::Var(idx.into()), Expr::lit(0))));
                v.push(Stmt::Expr(Expr::assign(LValue::Var(dst.into()), Expr::Lv(LValue::Index(t, Box::new(Expr::var(idx)))))));
            } else {
                v.push(self.assign_stmt(fc));
            }
        }
        v
    }

    fn gen_func(&mut self, idx: usize, is_main: bool) -> Func {
        let name = if is_main { "main".to_string() } else { self.func_name(idx) };
        let simple = !is_main && self.cfg.simple_helper_permille > 0 && self.g.chance(self.cfg.simple_helper_permille, 1000);
        let ret = if is_main || simple || self.g.chance(2, 5) {
            None
        } else if self.cfg.signed && self.g.chance(1, 4) {
            Some(Ty::I8)
        } else {
            Some(Ty::U8)
        };
        let inline = !is_main && self.cfg.inline_permille > 0 && self.g.chance(self.cfg.inline_permille, 1000);
        let bank = if !is_main && !inline && self.cfg.banked_permille > 0 && self.g.chance(self.cfg.banked_permille, 1000) { 1 + self.g.below(2) as u32 } else { 0 };
        let mut params = vec![];
        if !is_main && !simple {
            let np = self.g.weighted(&[3, 4, 3, 1]);
            for i in 0..np {
                let ty = match self.g.below(8) {
                    0 if self.cfg.signed => Ty::I8,
                    1 if self.cfg.shorts => Ty::I16,
                    _ => Ty::U8,
                };
                params.push((format!("p{}_{}", idx, i), ty));
            }
        }
        let mut fc = FnCtx {
            scopes: vec![],
            params: params.iter().map(|(n, t)| LVar { name: n.clone(), ty: *t, arr: 0 }).collect(),
            protected: HashSet::new(),
            in_loop: 0,
            in_for: 0,
            in_switch: 0,
            no_decl: 0,
            no16: 0,
            ret,
            labels: 0,
            nest: 0,
            is_main,
            touched: HashSet::new(),
            value_calls_in_expr: 0,
            in_condition: false,
            in_args: 0,
            dest16: false,
            idx,
            bank,
            inline,
        };
        let n = 1 + self.g.below(self.cfg.max_stmts);
        let mut body = self.stmt_list(&mut fc, n);
        if self.cfg.long_bodies && self.g.chance(1, 2) {
            self.label("long-body");
            // wrap a long filler in an if / loop so that a branch has to cross it
            fc.scopes.push(vec![]);
            let bytes = *self.g.pick(&[100usize, 128, 140, 200, 300]);
            let filler = self.long_filler(&mut fc, bytes);
            Self::new_expr_ctx(&mut fc);
            let c = self.condition(&mut fc, 1);
            let wrapped = if self.g.chance(2, 3) {
                let e = if self.g.chance(1, 2) { Some(Box::new(Stmt::Block(self.long_filler(&mut fc, bytes / 2)))) } else { None };
                Stmt::If(c, Box::new(Stmt::Block(filler)), e)
            } else {
                match self.counter_var(&fc) {
                    Some((cv, _)) => {
                        let lv = LValue::Var(cv.clone());
                        Stmt::For(
                            Some(Expr::assign(lv.clone(), Expr::lit(0))),
                            Some(Expr::bin(BinOp::Lt, Expr::var(&cv), Expr::lit(2))),
                            Some(Expr::IncDec(true, false, lv)),
                            Box::new(Stmt::Block(filler)),
                        )
                    }
                    None => Stmt::If(c, Box::new(Stmt::Block(filler)), None),
                }
            };
            fc.scopes.pop();
            let pos = self.g.below(body.len() + 1);
            // keep declarations first
            let first_non_decl = body.iter().position(|s| !matches!(s, Stmt::Decl(_))).unwrap_or(body.len());
            body.insert(pos.max(first_non_decl), wrapped);
        }
        // an unsigned char parameter compared with a constant as the first thing the function does: called
        // with a constant argument (and inlined), the comparison sits right behind what the caller left in
        // the registers and in the carry
        // (the last parameter: its value is the one the accumulator still holds at the call)
        if let Some((pn, _)) = params.last().filter(|(_, t)| *t == Ty::U8).cloned() {
            if self.g.chance(1, if inline { 2 } else { 4 }) {
                let t8: Vec<String> = self.globals.iter().filter(|g| g.kind == VarKind::Scalar && is8(g.ty) && !g.name.starts_with("hv")).map(|g| g.name.clone()).collect();
                if !t8.is_empty() {
                    let t = self.g.pick(&t8).clone();
                    let k = self.g.range(1, 9) as i32;
                    let first_non_decl = body.iter().position(|s| !matches!(s, Stmt::Decl(_))).unwrap_or(body.len());
                    self.label("unsigned-parameter-compare");
                    self.param_compare.push((idx, k));
                    body.insert(
                        first_non_decl,
                        Stmt::If(
                            Expr::bin(*self.g.pick(&[BinOp::Le, BinOp::Gt, BinOp::Le, BinOp::Gt, BinOp::Lt, BinOp::Ge]), Expr::var(&pn), Expr::lit(k)),
                            Box::new(Stmt::Expr(Expr::assign(LValue::Var(t.clone()), Expr::lit(1)))),
                            Some(Box::new(Stmt::Expr(Expr::assign(LValue::Var(t), Expr::lit(2))))),
                        ),
                    );
                }
            }
        }
        // a signed char parameter used where its sign matters (comparison, widening, right shift)
        if let Some((pn, _)) = params.iter().find(|(_, t)| *t == Ty::I8).cloned() {
            if self.g.chance(1, 2) {
                let tg: Vec<(String, Ty)> = self.globals.iter().filter(|g| g.kind == VarKind::Scalar && !g.name.starts_with("hv") && g.ty != Ty::Ptr).map(|g| (g.name.clone(), g.ty)).collect();
                let t8: Vec<String> = tg.iter().filter(|(_, t)| is8(*t)).map(|(n, _)| n.clone()).collect();
                let t16: Vec<String> = tg.iter().filter(|(_, t)| t.bits() == 16).map(|(n, _)| n.clone()).collect();
                let first_non_decl = body.iter().position(|s| !matches!(s, Stmt::Decl(_))).unwrap_or(body.len());
                let st = match self.g.below(3) {
                    0 if !t8.is_empty() => {
                        let t = self.g.pick(&t8).clone();
                        let k = self.g.range(1, 20) as i32;
                        Some(Stmt::If(
                            Expr::bin(*self.g.pick(&[BinOp::Lt, BinOp::Ge]), Expr::var(&pn), Expr::lit(k)),
                            Box::new(Stmt::Expr(Expr::assign(LValue::Var(t.clone()), Expr::lit(1)))),
                            Some(Box::new(Stmt::Expr(Expr::assign(LValue::Var(t), Expr::lit(2))))),
                        ))
                    }
                    1 if !t16.is_empty() => Some(Stmt::Expr(Expr::assign(LValue::Var(self.g.pick(&t16).clone()), Expr::var(&pn)))),
                    _ if !t8.is_empty() => Some(Stmt::Expr(Expr::assign(LValue::Var(self.g.pick(&t8).clone()), Expr::bin(BinOp::Shr, Expr::var(&pn), Expr::lit(1))))),
                    _ => None,
                };
                if let Some(st) = st {
                    self.label("signed-parameter-use");
                    body.insert(first_non_decl, st);
                }
            }
        }
        if let Some(t) = ret {
            Self::new_expr_ctx(&mut fc);
            fc.scopes.push(vec![]);
            if self.g.chance(1, 4) {
                // several return paths that end in small constants (what a predicate looks like)
                self.label("constant-returns");
                let c = self.condition(&mut fc, 1);
                let k1 = self.g.below(3) as i32;
                let k2 = self.g.below(3) as i32;
                let first_non_decl = body.iter().position(|s| !matches!(s, Stmt::Decl(_))).unwrap_or(body.len());
                let pos = first_non_decl + self.g.below(body.len() - first_non_decl + 1);
                body.insert(pos, Stmt::If(c, Box::new(Stmt::Return(Some(Expr::lit(k1)))), None));
                body.push(Stmt::Return(Some(Expr::lit(k2))));
            } else if is8(t) && self.g.chance(1, 4) {
                // the value to return is already in the accumulator but the flags describe something else, or
                // the return expression leaves something to settle (a post-increment, a borrowed index register)
                self.label("return-with-foreign-flags");
                let g8: Vec<String> = self.globals.iter().filter(|g| g.kind == VarKind::Scalar && is8(g.ty) && g.mem == MemQual::Default && !g.name.starts_with("hv")).map(|g| g.name.clone()).collect();
                let arrs: Vec<(String, usize)> = self.globals.iter().filter_map(|g| match g.kind { VarKind::Array(n) if is8(g.ty) && g.mem == MemQual::Default => Some((g.name.clone(), n)), _ => None }).collect();
                let style = self.g.below(4);
                if style == 3 && !arrs.is_empty() && g8.len() >= 2 {
                    // one alternative of a ?: indexes by a variable: Y is given back inside that alternative
                    let (ar, n) = self.g.pick(&arrs).clone();
                    let v = g8[0].clone();
                    let c = g8[1].clone();
                    if n.is_power_of_two() {
                        body.push(Stmt::Expr(Expr::Assign(Some(BinOp::And), LValue::Var(v.clone()), Box::new(Expr::lit(n as i32 - 1)))));
                    } else {
                        body.push(Stmt::Expr(Expr::assign(LValue::Var(v.clone()), Expr::lit(0))));
                    }
                    let elem = Expr::Lv(LValue::Index(ar, Box::new(Expr::var(&v))));
                    let k = Expr::lit(self.g.below(3) as i32);
                    let e = if self.g.chance(1, 2) { Expr::Ternary(Box::new(Expr::var(&c)), Box::new(elem), Box::new(k)) } else { Expr::Ternary(Box::new(Expr::var(&c)), Box::new(k), Box::new(elem)) };
                    body.push(Stmt::Return(Some(e)));
                } else if style == 0 && g8.len() >= 2 {
                    let k = self.g.below(3) as i32;
                    let reg = if self.g.chance(1, 2) { "X" } else { "Y" };
                    body.push(Stmt::Expr(Expr::assign(LValue::Var(g8[0].clone()), Expr::lit(k))));
                    body.push(Stmt::Expr(Expr::assign(LValue::Var(reg.into()), Expr::var(&g8[1]))));
                    body.push(Stmt::Return(Some(Expr::lit(k))));
                } else if style == 1 && !g8.is_empty() {
                    let v = self.g.pick(&g8).clone();
                    body.push(Stmt::Return(Some(Expr::IncDec(self.g.chance(1, 2), false, LValue::Var(v)))));
                } else if !arrs.is_empty() && !g8.is_empty() {
                    let (ar, n) = self.g.pick(&arrs).clone();
                    let v = self.g.pick(&g8).clone();
                    // the index is reduced to the array size first
                    if n.is_power_of_two() {
                        body.push(Stmt::Expr(Expr::Assign(Some(BinOp::And), LValue::Var(v.clone()), Box::new(Expr::lit(n as i32 - 1)))));
                    } else {
                        body.push(Stmt::Expr(Expr::assign(LValue::Var(v.clone()), Expr::lit(0))));
                    }
                    body.push(Stmt::Return(Some(Expr::Lv(LValue::Index(ar, Box::new(Expr::var(&v)))))));
                } else {
                    let e = self.rvalue(&mut fc, t, 2);
                    body.push(Stmt::Return(Some(e)));
                }
            } else {
                // locals declared at the top of the body are out of scope here by construction of
                // stmt_list (it pops its scope), so the return expression uses params and globals
                let e = self.rvalue(&mut fc, t, 2);
                body.push(Stmt::Return(Some(e)));
            }
            fc.scopes.pop();
        }
        // what one function leaves in the flags must not be believed at the entry of the next one:
        // the previous function ended with `o--`, this one starts with a test of o
        if let Some(o) = self.handover.take() {
            let targets: Vec<String> =
                self.globals.iter().filter(|g| g.kind == VarKind::Scalar && is8(g.ty) && g.name != o && !g.name.starts_with("hv")).map(|g| g.name.clone()).collect();
            if !targets.is_empty() {
                self.label("flags-across-functions");
                let t = self.g.pick(&targets).clone();
                let cond = match self.g.below(3) {
                    0 => Expr::var(&o),
                    1 => Expr::bin(BinOp::Eq, Expr::var(&o), Expr::lit(0)),
                    _ => Expr::bin(BinOp::Ne, Expr::var(&o), Expr::lit(0)),
                };
                let test = Stmt::If(cond, Box::new(Stmt::Expr(Expr::assign(LValue::Var(t), Expr::lit(self.g.range(0, 200) as i32)))), None);
                let first_non_decl = body.iter().position(|s| !matches!(s, Stmt::Decl(_))).unwrap_or(body.len());
                body.insert(first_non_decl, test);
            }
        }
        if ret.is_none() && !is_main && self.cfg.asm_menu && self.g.chance(1, 4) {
            // a void helper that ends with inline assembler, after a conditional early return
            self.label("trailing-asm-after-early-return");
            Self::new_expr_ctx(&mut fc);
            fc.scopes.push(vec![]);
            let c = self.condition(&mut fc, 1);
            let tgt: Vec<String> = self.globals.iter().filter(|g| g.kind == VarKind::Scalar && is8(g.ty) && g.mem == MemQual::Default && !g.name.starts_with("hv")).map(|g| g.name.clone()).collect();
            fc.scopes.pop();
            if !tgt.is_empty() {
                let t = self.g.pick(&tgt).clone();
                let k = self.g.range(0, 200) as i32;
                let first_non_decl = body.iter().position(|s| !matches!(s, Stmt::Decl(_))).unwrap_or(body.len());
                let pos = first_non_decl + self.g.below(body.len() - first_non_decl + 1);
                body.insert(pos, Stmt::If(c, Box::new(Stmt::Block(vec![Stmt::Expr(Expr::assign(LValue::Var(t.clone()), Expr::lit(k))), Stmt::Return(None)])), None));
                let a = self.asm_stmt(&mut fc);
                body.push(a);
            }
        } else if ret.is_none() && self.g.chance(1, 4) {
            let mut ops: Vec<String> =
                self.globals.iter().filter(|g| g.kind == VarKind::Scalar && is8(g.ty) && !g.name.starts_with("hv")).map(|g| g.name.clone()).collect();
            ops.push("X".into());
            ops.push("Y".into());
            let o = self.g.pick(&ops).clone();
            let s1 = match self.g.below(3) {
                0 => Expr::IncDec(false, false, LValue::Var(o.clone())),
                1 => Expr::IncDec(true, false, LValue::Var(o.clone())),
                _ => Expr::assign(LValue::Var(o.clone()), Expr::lit(self.g.range(0, 2) as i32)),
            };
            body.push(Stmt::Expr(s1));
            self.handover = Some(o);
        }
        if self.cfg.hw && inline && ret.is_none() && params.is_empty() && self.g.chance(1, 2) {
            let hvn = format!("hv{}", 1 + self.g.below(3));
            let at = body.iter().position(|s| !matches!(s, Stmt::Decl(_))).unwrap_or(body.len());
            body.insert(at, Stmt::Load(Expr::var(&hvn)));
            body.insert(at + 1, Stmt::Store(LValue::Var(format!("hv{}", 1 + self.g.below(3)))));
            self.load_first.push((idx, hvn));
        } else if inline && ret.is_none() && self.g.chance(1, 10) {
            // an inline function that generates no code at all (a hook compiled out): its calls still
            // evaluate the arguments and still count as calls
            body.clear();
            self.label("empty-inline-function");
        }
        Func { name, ret, params, body, inline, interrupt: false, proto: false, bank }
    }

    pub fn program(mut self) -> (Program, Vec<&'static str>) {
        self.gen_globals();
        if self.cfg.long_bodies && self.g.chance(1, 2) {
            let k = 4 + self.g.below(6);
            let text = vec!["NOP"; k].join("\\n\\t");
            self.pad_helper = Some(Func {
                name: "zpad".into(),
                ret: None,
                params: vec![],
                body: vec![Stmt::Asm(text, Some(k as u32))],
                inline: self.g.chance(3, 4),
                interrupt: false,
                proto: false,
                bank: 0,
            });
            self.label("sized-asm-helper");
        }
        // (decided by a hash of the globals, not by the generator's stream: the other programs stay what they were)
        let gh = crate::pbt::hash_str(&self.globals.iter().map(|g| format!("{}:{:?};", g.name, g.ty)).collect::<String>());
        if self.cfg.opt_stress && self.cfg.inline_permille > 0 && gh % 6 == 0 {
            let t8: Vec<String> = self.globals.iter().filter(|g| g.kind == VarKind::Scalar && is8(g.ty) && g.mem == MemQual::Default && !g.name.starts_with("hv")).map(|g| g.name.clone()).collect();
            if !t8.is_empty() {
                let t = t8[(gh / 6 % t8.len() as u64) as usize].clone();
                let k = 1 + (gh / 600 % 8) as i32;
                let op = [BinOp::Le, BinOp::Gt, BinOp::Le, BinOp::Gt, BinOp::Lt, BinOp::Ge][(gh / 6000 % 6) as usize];
                let body = vec![Stmt::If(
                    Expr::bin(op, Expr::var("zp"), Expr::lit(k)),
                    Box::new(Stmt::Expr(Expr::assign(LValue::Var(t.clone()), Expr::lit(1)))),
                    Some(Box::new(Stmt::Expr(Expr::assign(LValue::Var(t), Expr::lit(2))))),
                )];
                self.cmp_helper = Some((
                    Func { name: "zcmp".into(), ret: None, params: vec![("zp".into(), Ty::U8)], body, inline: gh / 60000 % 6 != 0, interrupt: false, proto: false, bank: 0 },
                    k,
                ));
                self.label("compare-only-helper");
            }
        }
        if self.cfg.hw && self.g.chance(1, 3) {
            let hvn = format!("hv{}", 1 + self.g.below(3));
            let second = if self.g.chance(1, 2) { Stmt::Store(LValue::Var(format!("hv{}", 1 + self.g.below(3)))) } else { Stmt::Strobe(LValue::Var(format!("HR{}", 1 + self.g.below(2)))) };
            self.line_helper = Some((
                Func { name: "zline".into(), ret: None, params: vec![], body: vec![Stmt::Load(Expr::var(&hvn)), second], inline: self.g.chance(4, 5), interrupt: false, proto: false, bank: 0 },
                hvn,
            ));
        }
        let nh = if self.cfg.helpers_must_exist {
            1 + self.g.below(self.cfg.max_helpers.max(1))
        } else {
            self.g.below(self.cfg.max_helpers + 1)
        };
        for i in 0..nh {
            let mut f = self.gen_func(i, false);
            // interrupt handlers: void, no parameters, never called, always in use
            let calls_itself = self.self_callers.contains(&i);
            if self.cfg.interrupts && f.ret.is_none() && f.params.is_empty() && !f.inline && f.bank == 0 && !calls_itself && self.g.chance(1, 3) {
                f.interrupt = true;
                f.body.retain(|s| !matches!(s, Stmt::Return(_)));
                self.label("interrupt-handler");
            }
            if self.cfg.protos && !f.inline && self.g.chance(1, 3) {
                f.proto = true;
                self.label("prototype");
            }
            self.helpers.push(f);
        }
        // a call to a function that is only declared so far (prototype): the callee is defined after its
        // caller. Only for checks that do not execute the program (mutual recursion may result)
        if self.cfg.protos && self.cfg.self_calls && nh >= 2 && self.g.chance(1, 2) {
            let j = 1 + self.g.below(nh - 1);
            let i = self.g.below(j);
            let ok = !self.helpers[j].inline && !self.helpers[j].interrupt && !self.helpers[i].inline && self.helpers[j].bank == 0 && self.helpers[i].bank == 0;
            if ok {
                self.helpers[j].proto = true;
                let args: Vec<Expr> = self.helpers[j].params.iter().map(|(_, t)| if *t == Ty::Ptr { Expr::lit(0) } else { Expr::lit(1) }).collect();
                let call = Stmt::Expr(Expr::Call(self.helpers[j].name.clone(), args));
                // before a trailing return, if any
                let body = &mut self.helpers[i].body;
                let at = if matches!(body.last(), Some(Stmt::Return(_))) { body.len() - 1 } else { body.len() };
                body.insert(at, call);
                self.label("call-of-a-function-defined-later");
            }
        }
        let main = self.gen_func(nh, true);
        let mut funcs = self.helpers.clone();
        if let Some(p) = &self.pad_helper {
            funcs.insert(0, p.clone());
        }
        if let Some((f, _)) = &self.line_helper {
            funcs.insert(0, f.clone());
        }
        if let Some((f, _)) = &self.cmp_helper {
            funcs.insert(0, f.clone());
        }
        funcs.push(main);
        (Program { globals: self.globals.clone(), funcs }, self.labels.clone())
    }
}

// ---------------------------------------------------------------------- initial states

pub fn collect_literals(p: &Program) -> Vec<i32> {
    fn ex(e: &Expr, out: &mut Vec<i32>) {
        match e {
            Expr::Lit(v, _) => out.push(*v),
            Expr::Lv(LValue::Index(_, i)) => ex(i, out),
            Expr::Un(_, a) => ex(a, out),
            Expr::Bin(_, a, b) | Expr::Comma(a, b) => {
                ex(a, out);
                ex(b, out)
            }
            Expr::Assign(_, lv, r) => {
                if let LValue::Index(_, i) = lv {
                    ex(i, out);
                }
                ex(r, out)
            }
            Expr::Call(_, a) => a.iter().for_each(|x| ex(x, out)),
            Expr::Ternary(c, a, b) => {
                ex(c, out);
                ex(a, out);
                ex(b, out)
            }
            _ => {}
        }
    }
    fn st(s: &Stmt, out: &mut Vec<i32>) {
        match s {
            Stmt::Expr(e) => ex(e, out),
            Stmt::Decl(d) => {
                if let Some(e) = &d.init {
                    ex(e, out)
                }
            }
            Stmt::Block(b) => b.iter().for_each(|x| st(x, out)),
            Stmt::If(c, a, b) => {
                ex(c, out);
                st(a, out);
                if let Some(b) = b {
                    st(b, out)
                }
            }
            Stmt::While(c, b) | Stmt::DoWhile(b, c) => {
                ex(c, out);
                st(b, out)
            }
            Stmt::For(i, c, u, b) => {
                for e in [i, c, u].into_iter().flatten() {
                    ex(e, out)
                }
                st(b, out)
            }
            Stmt::Switch(e, cs, d) => {
                ex(e, out);
                for c in cs {
                    out.extend(c.labels.iter().copied());
                    c.body.iter().for_each(|x| st(x, out));
                }
                if let Some(d) = d {
                    d.iter().for_each(|x| st(x, out))
                }
            }
            Stmt::Label(_, s) => st(s, out),
            Stmt::Return(Some(e)) | Stmt::Load(e) => ex(e, out),
            _ => {}
        }
    }
    let mut out = vec![];
    for f in &p.funcs {
        f.body.iter().for_each(|s| st(s, &mut out));
    }
    out.sort();
    out.dedup();
    out
}

pub fn gen_init(g: &mut G, p: &Program) -> Init {
    let lits = collect_literals(p);
    let mut init = Init::default();
    init.fill = g.u32();
    let mut byte = |g: &mut G| -> u8 {
        if !lits.is_empty() && g.chance(1, 4) {
            let l = lits[g.below(lits.len())];
            (l + g.range(-1, 1) as i32) as u8
        } else {
            g.byte_biased()
        }
    };
    let char_arrays: Vec<(String, usize)> = p
        .globals
        .iter()
        .filter(|d| d.is_array() && d.ty.bits() == 8 && !matches!(d.mem, MemQual::Superchip | MemQual::Bank(_)))
        .map(|d| (d.name.clone(), d.len()))
        .collect();
    for d in &p.globals {
        match &d.kind {
            VarKind::Scalar => {
                if d.ty == Ty::Ptr {
                    if !char_arrays.is_empty() && g.chance(19, 20) {
                        let (a, n) = char_arrays[g.below(char_arrays.len())].clone();
                        init.vars.insert(d.name.clone(), InitVal::Ptr(a, g.below(n) as i32));
                    } else {
                        init.vars.insert(d.name.clone(), InitVal::Bytes(vec![byte(g), byte(g)]));
                    }
                } else if d.ty.bits() == 8 {
                    init.vars.insert(d.name.clone(), InitVal::Bytes(vec![byte(g)]));
                } else {
                    let hi = match g.below(5) {
                        0 => 0,
                        1 => 0xff,
                        _ => byte(g),
                    };
                    init.vars.insert(d.name.clone(), InitVal::Bytes(vec![byte(g), hi]));
                }
            }
            VarKind::Array(n) => {
                let total = n * d.ty.bytes() as usize;
                let b: Vec<u8> = (0..total).map(|_| byte(g)).collect();
                init.vars.insert(d.name.clone(), InitVal::Bytes(b));
            }
            VarKind::ConstPtr(_) => {
                init.vars.insert(d.name.clone(), InitVal::Bytes(vec![byte(g)]));
            }
            _ => {}
        }
    }
    // index registers: mostly small so that X/Y-indexed accesses stay in bounds
    init.x = if g.chance(3, 4) { g.below(4) as u8 } else { byte(g) };
    init.y = if g.chance(3, 4) { g.below(4) as u8 } else { byte(g) };
    init.a = g.u32() as u8;
    init.p = g.u32() as u8;
    init
}
