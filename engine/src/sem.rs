//! Semantic pipeline shared by C01/C02/C14/C15/C17/C18: generated program -> cc6502 ->
//! assembler -> emulator, compared with RefC or with another compilation.
use crate::asm6502::AsmError;
use crate::ast::*;
use crate::cc::{self, Capture, CcError, Opts, Outcome, PanicSig};
use crate::emu6502::Stop;
use crate::exec::{self, Image, Init, InitVal, LinkError, Machine, RunResult, Which};
use crate::gen::{self, Excl, GenCfg, ProgGen};
use crate::layout::LayoutError;
use crate::pbt::{Reducible, Stats, G};
use crate::refc::{self, FinalState, Verdict};
use crate::shrink;
use serde::{Deserialize, Serialize};
use serde_json::json;
use std::collections::BTreeMap;

#[derive(Debug, Clone, Serialize, Deserialize)]
pub struct SemCase {
    pub prog: Program,
    pub minimal_parens: bool,
    pub opt: u8,
    pub signed_chars: bool,
    pub scheme: String,
    pub inits: Vec<Init>,
    pub labels: Vec<String>,
    pub layout_shuffle: u32,
    /// exclusion rules that made the generator start over before this program was kept
    #[serde(default)]
    pub regenerated: Vec<String>,
}

impl SemCase {
    pub fn source(&self) -> String {
        print_program_sc(
            &self.prog,
            if self.minimal_parens { Parens::Minimal } else { Parens::Full },
            self.signed_chars,
        )
    }
    pub fn opts(&self) -> Opts {
        Opts { opt_level: self.opt, signed_chars: self.signed_chars, scheme: self.scheme.clone(), ..Opts::default() }
    }
    pub fn with_opt(&self, o: u8) -> Opts {
        Opts { opt_level: o, ..self.opts() }
    }
    pub fn describe(&self) -> serde_json::Value {
        json!({
            "source": self.source(),
            "options": self.opts().describe(),
            "labels": self.labels,
            "first_input": self.inits.first(),
            "inputs": self.inits.len(),
        })
    }
}

impl Reducible for SemCase {
    fn reductions(&self) -> Vec<SemCase> {
        let mut out = vec![];
        if self.inits.len() > 1 {
            for i in 0..self.inits.len() {
                let mut n = self.clone();
                n.inits = vec![self.inits[i].clone()];
                out.push(n);
            }
        }
        for p in shrink::reduce_program(&self.prog) {
            let mut n = self.clone();
            n.prog = p;
            out.push(n);
        }
        if self.inits.len() == 1 {
            let init = &self.inits[0];
            for (k, v) in &init.vars {
                if let InitVal::Bytes(b) = v {
                    if b.iter().any(|x| *x != 0) {
                        let mut n = self.clone();
                        n.inits[0].vars.insert(k.clone(), InitVal::Bytes(vec![0; b.len()]));
                        out.push(n);
                        if b.len() == 1 && b[0] > 1 {
                            let mut n = self.clone();
                            n.inits[0].vars.insert(k.clone(), InitVal::Bytes(vec![b[0] / 2]));
                            out.push(n);
                        }
                    }
                }
            }
            if init.x != 0 {
                let mut n = self.clone();
                n.inits[0].x = 0;
                out.push(n);
            }
            if init.y != 0 {
                let mut n = self.clone();
                n.inits[0].y = 0;
                out.push(n);
            }
            if init.fill != 0 {
                let mut n = self.clone();
                n.inits[0].fill = 0;
                n.inits[0].a = 0;
                n.inits[0].p = 0;
                out.push(n);
            }
        }
        if !self.minimal_parens {
            // nothing
        } else {
            let mut n = self.clone();
            n.minimal_parens = false;
            out.push(n);
        }
        if self.layout_shuffle != 0 {
            let mut n = self.clone();
            n.layout_shuffle = 0;
            out.push(n);
        }
        out
    }
}

pub fn gen_case(g: &mut G, cfg: &GenCfg, n_inits: usize, opt_choices: &[u8], allow_signed_chars: bool) -> SemCase {
    let mut regenerated = vec![];
    let (mut prog, mut labels) = ProgGen::new(g, cfg.clone()).program();
    // safety net behind the generator's own avoidance: start over while an active
    // exclusion rule matches (counted in the evidence)
    for _ in 0..40 {
        match crate::excl::find_excluded(&prog, &cfg.excl) {
            Some(rule) => {
                regenerated.push(rule.to_string());
                let r = ProgGen::new(g, cfg.clone()).program();
                prog = r.0;
                labels = r.1;
            }
            None => break,
        }
    }
    let mut inits = vec![];
    for _ in 0..n_inits {
        inits.push(gen::gen_init(g, &prog));
    }
    let opt = opt_choices[g.below(opt_choices.len())];
    let has_ptr = prog.globals.iter().any(|d| d.ty == Ty::Ptr);
    let scheme = match cfg.split_qual {
        MemQual::Bank(_) if cfg.split_permille > 0 => {
            if g.chance(1, 2) {
                "3E"
            } else {
                "3EP"
            }
        }
        _ => "4K",
    };
    SemCase {
        prog,
        minimal_parens: g.chance(2, 3),
        opt,
        // plain `char *` dereferences stay unsigned under --fsigned_char in cc6502; programs
        // with pointer variables are therefore only compiled with the default (unsigned) char
        signed_chars: allow_signed_chars && g.chance(1, 4) && !has_ptr,
        scheme: scheme.to_string(),
        inits,
        labels: labels.iter().map(|s| s.to_string()).collect(),
        layout_shuffle: g.below(35) as u32,
        regenerated,
    }
}

pub enum Built {
    Rejected(CcError),
    Panic(PanicSig),
    LayoutFail(LayoutError),
    AsmFail(AsmError),
    NoMain,
    Ok(Box<Capture>, Box<Image>),
}

pub fn build(src: &str, opts: &Opts, shuffle: u32) -> Built {
    match cc::compile_str(src, opts) {
        Outcome::Err(e) => Built::Rejected(e),
        Outcome::Panic(p) => Built::Panic(p),
        Outcome::Ok(cap) => match exec::link(&cap, &opts.scheme, shuffle, Which::InUse) {
            Ok(img) => Built::Ok(cap, Box::new(img)),
            Err(LinkError::Layout(l)) => Built::LayoutFail(l),
            Err(LinkError::Asm(a)) => Built::AsmFail(a),
            Err(LinkError::NoMain) => Built::NoMain,
        },
    }
}

/// normalise an error message for histogram keys
pub fn msg_key(m: &str) -> String {
    let mut s: String = m.chars().take(60).collect();
    s = s.replace('\n', " ");
    s
}

thread_local! {
    static MACHINE: std::cell::RefCell<Machine> = std::cell::RefCell::new(Machine::new());
}

pub fn run_image(img: &Image, init: &Init, max_cycles: u64) -> RunResult {
    MACHINE.with(|m| m.borrow_mut().run(img, init, max_cycles))
}

pub fn run_image_watched(img: &Image, init: &Init, max_cycles: u64, watch: &[(u16, u16)]) -> RunResult {
    MACHINE.with(|m| {
        let mut m = m.borrow_mut();
        m.cpu.watch = watch.to_vec();
        let r = m.run(img, init, max_cycles);
        m.cpu.watch.clear();
        r
    })
}

/// C-level observable state of an emulator run, by global variable name
pub fn observable(p: &Program, r: &RunResult) -> BTreeMap<String, Vec<u8>> {
    let mut m = BTreeMap::new();
    for g in &p.globals {
        if let Some(b) = r.vars.get(&g.name) {
            m.insert(g.name.clone(), b.clone());
        }
    }
    m
}

pub fn diff_states(
    expected: &BTreeMap<String, Vec<u8>>,
    ex: u8,
    ey: u8,
    actual: &BTreeMap<String, Vec<u8>>,
    ax: u8,
    ay: u8,
    skip: &[String],
) -> Option<String> {
    for (k, v) in expected {
        if skip.contains(k) {
            continue;
        }
        match actual.get(k) {
            Some(a) if a == v => {}
            Some(a) => return Some(format!("variable {} expected {:?} got {:?}", k, v, a)),
            None => return Some(format!("variable {} missing in the compiled program", k)),
        }
    }
    if ex != ax {
        return Some(format!("X expected {} got {}", ex, ax));
    }
    if ey != ay {
        return Some(format!("Y expected {} got {}", ey, ay));
    }
    None
}

pub fn init_state_bytes(p: &Program, init: &Init) -> BTreeMap<String, Vec<u8>> {
    let mut m = BTreeMap::new();
    for g in &p.globals {
        if let Some(InitVal::Bytes(b)) = init.vars.get(&g.name) {
            m.insert(g.name.clone(), b.clone());
        }
    }
    m
}

pub fn changed(p: &Program, init: &Init, fs: &FinalState) -> bool {
    if fs.x != init.x || fs.y != init.y {
        return true;
    }
    let ib = init_state_bytes(p, init);
    for (k, v) in &fs.globals {
        match ib.get(k) {
            Some(b) => {
                if b.iter().zip(v.iter()).any(|(a, c)| a != c) {
                    return true;
                }
            }
            None => return true, // pointers: any defined final value counts
        }
    }
    false
}

pub const REFC_STEPS: u64 = 20_000;

/// Reference verdict for one input vector
pub fn reference(case: &SemCase, img: &Image, init: &Init, ex: &Excl) -> Verdict {
    refc::run_all_ex(
        &case.prog,
        &img.layout,
        init,
        REFC_STEPS,
        &refc::READINGS,
        case.signed_chars,
        ex.has("signed_rel_overflow"),
    )
}

pub fn cycle_budget(steps: u64) -> u64 {
    200 * steps + 10_000
}

/// C01 oracle on one case. Err("class: detail") is a violation.
pub fn check_against_refc(case: &SemCase, st: &mut Stats, tag: &str, ex: &Excl) -> Result<(), String> {
    let src = case.source();
    st.count("programs");
    for r in &case.regenerated {
        st.count(&format!("excluded:{}", r));
    }
    if let Some(rule) = crate::excl::find_excluded(&case.prog, ex) {
        // only reachable while shrinking (the generator never returns such a program)
        st.count(&format!("excluded_in_shrink:{}", rule));
        return Ok(());
    }
    let (cap, img) = match build(&src, &case.opts(), case.layout_shuffle) {
        Built::Rejected(e) => {
            st.count("rejected");
            st.count(&format!("rej:{}", msg_key(&e.msg())));
            return Ok(());
        }
        Built::Panic(p) => {
            st.count("compiler_panic(routed to C16)");
            st.count(&format!("panic:{}", p.sig));
            return Ok(());
        }
        Built::LayoutFail(_) => {
            st.count("layout_discard");
            return Ok(());
        }
        Built::AsmFail(e) => {
            st.count("asm_error(routed to C13)");
            st.count(&format!("asm:{:?}", e.kind).chars().take(70).collect::<String>());
            return Ok(());
        }
        Built::NoMain => {
            st.count("no_main");
            return Ok(());
        }
        Built::Ok(c, i) => (c, i),
    };
    let _ = cap;
    st.count("accepted");
    for l in &case.labels {
        st.count(&format!("label:{}", l));
    }
    let mut any_nontrivial = false;
    for (vi, init) in case.inits.iter().enumerate() {
        st.count("vectors");
        match reference(case, &img, init, ex) {
            Verdict::Excluded(r) => st.count(&format!("excluded:{}", r)),
            Verdict::Ambiguous => st.count("ambiguous"),
            Verdict::Undefined(_) => st.count("ub"),
            Verdict::Timeout => st.count("refc_timeout"),
            Verdict::Unsupported(s) => {
                st.count("refc_unsupported");
                st.count(&format!("unsup:{}", msg_key(&s)));
            }
            Verdict::Agreed(fs) => {
                st.count("compared");
                let r = run_image(&img, init, cycle_budget(fs.steps));
                match r.stop {
                    Stop::Halt => {}
                    Stop::CycleLimit => {
                        return Err(format!(
                            "{}-nontermination: source terminates (RefC {} steps) but the emitted code is still running after {} cycles; input #{}",
                            tag, fs.steps, r.cycles, vi
                        ))
                    }
                    other => return Err(format!("{}-crash: emitted code stopped with {:?}; input #{}", tag, other, vi)),
                }
                if let Some(f) = r.faults.first() {
                    return Err(format!(
                        "{}-port: split-port RAM accessed through the wrong port: {:?} ({} faults); input #{}",
                        tag,
                        f,
                        r.faults.len(),
                        vi
                    ));
                }
                let actual = observable(&case.prog, &r);
                if let Some(d) = diff_states(&fs.globals, fs.x, fs.y, &actual, r.x, r.y, &fs.unspecified) {
                    return Err(format!("{}-mismatch: {}; input #{}", tag, d, vi));
                }
                if changed(&case.prog, init, &fs) {
                    any_nontrivial = true;
                    st.nontrivial(crate::pbt::hash_str(&format!("{}|{:?}|{:?}", src, case.opts().describe(), init)));
                }
            }
        }
    }
    if any_nontrivial {
        st.count("nontrivial_programs");
        st.sample(2, || case.describe());
    }
    Ok(())
}

/// Outcome of compiling+linking one side of a differential pair
pub enum Side {
    Rejected(String),
    Panic(String),
    Unlinkable(String),
    Ok(Box<Capture>, Box<Image>),
}

pub fn build_side(src: &str, opts: &Opts, shuffle: u32) -> Side {
    match build(src, opts, shuffle) {
        Built::Rejected(e) => Side::Rejected(msg_key(&e.msg())),
        Built::Panic(p) => Side::Panic(p.sig),
        Built::LayoutFail(l) => Side::Unlinkable(format!("{:?}", l)),
        Built::AsmFail(a) => Side::Unlinkable(format!("asm: {:?}", a.kind)),
        Built::NoMain => Side::Unlinkable("no main".into()),
        Built::Ok(c, i) => Side::Ok(c, i),
    }
}

pub const DIFF_CYCLES: u64 = 300_000;

/// Co-execute two images of (what must be) the same program from identical initial states.
/// `prog` lists the C-level globals to compare. Returns Err on a behavioural difference.
/// Ok(n) = number of vectors on which the reference side changed the state.
pub fn co_execute(
    prog: &Program,
    a: &Image,
    b: &Image,
    inits: &[Init],
    st: &mut Stats,
    tag: &str,
    what: (&str, &str),
) -> Result<usize, String> {
    co_execute_f(prog, a, b, inits, st, tag, what, &|_| false)
}

/// true if the source has undefined / unspecified behaviour on this input (RefC, ISO reading):
/// two correct compilations may then legitimately differ
pub fn source_is_undefined(prog: &Program, img: &Image, init: &Init, signed_chars: bool) -> bool {
    // every reading is consulted: the compiled code may follow any of them through a condition,
    // and a path with undefined behaviour in one reading is enough to make differences legitimate
    for rd in refc::READINGS.iter() {
        let mut it = match refc::Interp::new(prog, &img.layout, *rd, init, REFC_STEPS) {
            Ok(i) => i,
            Err(_) => return true,
        };
        it.set_signed_char_default(signed_chars);
        match it.run_main() {
            Ok(_) | Err(refc::Abort::Timeout) => {}
            Err(_) => return true,
        }
    }
    false
}

/// true unless every RefC reading agrees on this input (no UB, no unspecified order, no
/// active dynamic exclusion, identical histories): outside this agreement domain two
/// spellings that are equivalent in C may legitimately be compiled differently
pub fn outside_agreement_domain(prog: &Program, img: &Image, init: &Init, signed_chars: bool, ex: &Excl) -> bool {
    match refc::run_all_ex(prog, &img.layout, init, REFC_STEPS, &refc::READINGS, signed_chars, ex.has("signed_rel_overflow")) {
        Verdict::Agreed(_) => false,
        // a run that the reference interpreter cannot finish within its step budget is not known to be
        // inside the domain (it may be ambiguous or undefined further on): it is not compared
        _ => true,
    }
}

pub fn co_execute_f(
    prog: &Program,
    a: &Image,
    b: &Image,
    inits: &[Init],
    st: &mut Stats,
    tag: &str,
    what: (&str, &str),
    skip: &dyn Fn(&Init) -> bool,
) -> Result<usize, String> {
    let mut changed_n = 0;
    for (vi, init) in inits.iter().enumerate() {
        st.count("vectors");
        if skip(init) {
            st.count("ub_or_unspecified_in_source");
            continue;
        }
        let mut ra = run_image(a, init, DIFF_CYCLES);
        if ra.stop == Stop::CycleLimit {
            let rb = run_image(b, init, DIFF_CYCLES);
            if rb.stop == Stop::CycleLimit {
                st.count("both_nonterminating");
                continue;
            }
            // the other side finished within the budget: a work bound proportional to its
            // length decides (optimised and unoptimised code differ by a small factor only)
            ra = run_image(a, init, 8 * rb.cycles + 50_000);
            if ra.stop == Stop::CycleLimit {
                return Err(format!(
                    "{}-termination: {} is still running after {} cycles but {} stopped with {:?} after {}; input #{}",
                    tag, what.0, ra.cycles, what.1, rb.stop, rb.cycles, vi
                ));
            }
        }
        let rb = run_image(b, init, 8 * ra.cycles + 50_000);
        if ra.stop != Stop::Halt {
            // the reference side crashed (a known C01-class defect, or UB in the source):
            // nothing to compare against
            st.count("reference_side_crashed");
            continue;
        }
        if rb.stop != Stop::Halt {
            return Err(format!(
                "{}-termination: {} halts after {} cycles but {} stopped with {:?}; input #{}",
                tag, what.0, ra.cycles, what.1, rb.stop, vi
            ));
        }
        st.count("compared");
        let oa = observable(prog, &ra);
        let ob = observable(prog, &rb);
        if let Some(d) = diff_states(&oa, ra.x, ra.y, &ob, rb.x, rb.y, &[]) {
            return Err(format!("{}-mismatch: {} vs {}: {}; input #{}", tag, what.0, what.1, d, vi));
        }
        // did the run change anything?
        let ib = init_state_bytes(prog, init);
        let mut ch = ra.x != init.x || ra.y != init.y;
        for (k, v) in &oa {
            if let Some(b0) = ib.get(k) {
                if b0.iter().zip(v.iter()).any(|(p, q)| p != q) {
                    ch = true;
                }
            }
        }
        if ch {
            changed_n += 1;
        }
    }
    Ok(changed_n)
}
