//! Glue between proptest and the structured generators: a Strategy that builds a value
//! from the runner's RNG and shrinks it through a user-supplied list of reductions
//! (AST-level shrinking), sharded deterministic runners, and per-run statistics.
use proptest::strategy::{NewTree, Strategy, ValueTree};
use proptest::test_runner::{Config, RngSeed, TestCaseError, TestError, TestRng, TestRunner};
use sha2::{Digest, Sha256};
use std::collections::{BTreeMap, HashSet};
use std::fmt::Debug;
use std::sync::Mutex;

pub use proptest::prelude::RngCore;

/// Small helper over the proptest RNG (all random choices go through it).
pub struct G<'a> {
    pub rng: &'a mut TestRng,
}

impl<'a> G<'a> {
    pub fn new(rng: &'a mut TestRng) -> G<'a> {
        G { rng }
    }
    pub fn u32(&mut self) -> u32 {
        self.rng.next_u32()
    }
    /// uniform in 0..n (n > 0)
    pub fn below(&mut self, n: usize) -> usize {
        if n <= 1 {
            return 0;
        }
        ((self.rng.next_u32() as u64 * n as u64) >> 32) as usize
    }
    pub fn range(&mut self, lo: i64, hi_incl: i64) -> i64 {
        lo + self.below((hi_incl - lo + 1) as usize) as i64
    }
    /// true with probability num/den
    pub fn chance(&mut self, num: u32, den: u32) -> bool {
        (self.below(den as usize) as u32) < num
    }
    pub fn pick<'b, T>(&mut self, v: &'b [T]) -> &'b T {
        &v[self.below(v.len())]
    }
    /// index chosen with the given weights
    pub fn weighted(&mut self, w: &[u32]) -> usize {
        let total: u32 = w.iter().sum();
        if total == 0 {
            return 0;
        }
        let mut r = self.below(total as usize) as u32;
        for (i, x) in w.iter().enumerate() {
            if r < *x {
                return i;
            }
            r -= *x;
        }
        w.len() - 1
    }
    pub fn byte_biased(&mut self) -> u8 {
        match self.below(10) {
            0 => 0,
            1 => 1,
            2 => 0x7f,
            3 => 0x80,
            4 => 0xff,
            5 => self.below(8) as u8,
            6 => 0xf8 + self.below(8) as u8,
            _ => self.u32() as u8,
        }
    }
}

pub trait Reducible: Clone + Debug {
    /// candidate simplifications of `self`, most aggressive first
    fn reductions(&self) -> Vec<Self>;
}

pub struct ReduceTree<T: Reducible> {
    current: T,
    base: T,
    cands: Vec<T>,
    next: usize,
    started: bool,
}

impl<T: Reducible> ValueTree for ReduceTree<T> {
    type Value = T;
    fn current(&self) -> T {
        self.current.clone()
    }
    /// called when `current` failed: make it the new base and try its first reduction
    fn simplify(&mut self) -> bool {
        self.base = self.current.clone();
        self.cands = self.base.reductions();
        self.started = true;
        self.next = 0;
        if self.cands.is_empty() {
            return false;
        }
        self.current = self.cands[0].clone();
        self.next = 1;
        true
    }
    /// called when `current` passed: try the next reduction of the base
    fn complicate(&mut self) -> bool {
        if !self.started {
            return false;
        }
        if self.next < self.cands.len() {
            self.current = self.cands[self.next].clone();
            self.next += 1;
            true
        } else {
            self.current = self.base.clone();
            false
        }
    }
}

pub struct GenStrategy<T, F> {
    pub f: F,
    pub _t: std::marker::PhantomData<T>,
}

impl<T, F> Debug for GenStrategy<T, F> {
    fn fmt(&self, f: &mut std::fmt::Formatter) -> std::fmt::Result {
        write!(f, "GenStrategy")
    }
}

impl<T: Reducible, F: Fn(&mut G) -> T> Strategy for GenStrategy<T, F> {
    type Tree = ReduceTree<T>;
    type Value = T;
    fn new_tree(&self, runner: &mut TestRunner) -> NewTree<Self> {
        let mut g = G::new(runner.rng());
        let v = (self.f)(&mut g);
        Ok(ReduceTree { current: v.clone(), base: v, cands: vec![], next: 0, started: false })
    }
}

pub fn strategy<T: Reducible, F: Fn(&mut G) -> T>(f: F) -> GenStrategy<T, F> {
    GenStrategy { f, _t: std::marker::PhantomData }
}

pub fn hash_str(s: &str) -> u64 {
    let mut h = Sha256::new();
    h.update(s.as_bytes());
    let d = h.finalize();
    u64::from_le_bytes(d[0..8].try_into().unwrap())
}

#[derive(Debug, Default, Clone)]
pub struct Stats {
    pub evaluations: u64,
    pub nontrivial: HashSet<u64>,
    pub counters: BTreeMap<String, u64>,
    pub samples: Vec<serde_json::Value>,
    pub frozen: bool,
}

impl Stats {
    pub fn count(&mut self, key: &str) {
        self.add(key, 1);
    }
    pub fn add(&mut self, key: &str, n: u64) {
        if self.frozen {
            return;
        }
        *self.counters.entry(key.to_string()).or_insert(0) += n;
    }
    pub fn eval(&mut self) {
        if !self.frozen {
            self.evaluations += 1;
        }
    }
    pub fn nontrivial(&mut self, h: u64) {
        if !self.frozen {
            self.nontrivial.insert(h);
        }
    }
    pub fn sample(&mut self, max: usize, f: impl FnOnce() -> serde_json::Value) {
        if !self.frozen && self.samples.len() < max {
            self.samples.push(f());
        }
    }
    pub fn merge(&mut self, o: &Stats) {
        self.evaluations += o.evaluations;
        self.nontrivial.extend(o.nontrivial.iter().copied());
        for (k, v) in &o.counters {
            *self.counters.entry(k.clone()).or_insert(0) += v;
        }
        for s in &o.samples {
            self.samples.push(s.clone());
        }
    }
}

#[derive(Debug, Clone)]
pub struct Failure<T> {
    pub shard: usize,
    pub reason: String,
    pub minimal: T,
}

pub struct ShardOutcome<T> {
    pub stats: Stats,
    pub failure: Option<Failure<T>>,
    pub aborted: Option<String>,
}

pub fn shard_seed(seed: u64, shard: usize, salt: &str) -> u64 {
    hash_str(&format!("{}:{}:{}", seed, shard, salt))
}

/// Run `cases` cases split over `shards` threads. `test` receives the case and the shard's
/// statistics; Err(reason) is a property violation. Deterministic for fixed (seed, salt).
pub fn run_sharded<T, S, F>(
    seed: u64,
    salt: &str,
    shards: usize,
    cases: u32,
    max_shrink_iters: u32,
    make_strategy: impl Fn(usize) -> S + Sync,
    test: F,
) -> (Stats, Vec<Failure<T>>, Vec<String>)
where
    T: Reducible + Send,
    S: Strategy<Value = T>,
    F: Fn(&T, &mut Stats) -> Result<(), String> + Sync,
{
    let per = (cases as usize + shards - 1) / shards;
    let results: Mutex<Vec<(usize, ShardOutcome<T>)>> = Mutex::new(vec![]);
    std::thread::scope(|sc| {
        for shard in 0..shards {
            let results = &results;
            let test = &test;
            let make_strategy = &make_strategy;
            std::thread::Builder::new()
                .stack_size(64 << 20)
                .spawn_scoped(sc, move || {
                    let cfg = Config {
                        cases: per as u32,
                        rng_seed: RngSeed::Fixed(shard_seed(seed, shard, salt)),
                        failure_persistence: None,
                        max_shrink_iters,
                        max_shrink_time: 0,
                        max_local_rejects: 1 << 30,
                        max_global_rejects: 1 << 30,
                        verbose: 0,
                        ..Config::default()
                    };
                    let mut runner = TestRunner::new(cfg);
                    let strat = make_strategy(shard);
                    let stats = std::cell::RefCell::new(Stats::default());
                    // class of the first failure ("class: detail"): while shrinking, only
                    // failures of the same class count, so the minimal case shows the same defect
                    let first_class: std::cell::RefCell<Option<String>> = std::cell::RefCell::new(None);
                    let r = runner.run(&strat, |case| {
                        let mut st = stats.borrow_mut();
                        st.eval();
                        match test(&case, &mut st) {
                            Ok(()) => Ok(()),
                            Err(reason) => {
                                st.frozen = true;
                                let class = reason.split(':').next().unwrap_or("").to_string();
                                let mut fc = first_class.borrow_mut();
                                match &*fc {
                                    None => {
                                        *fc = Some(class);
                                        Err(TestCaseError::fail(reason))
                                    }
                                    Some(c) if *c == class => Err(TestCaseError::fail(reason)),
                                    Some(_) => Ok(()),
                                }
                            }
                        }
                    });
                    let mut out = ShardOutcome { stats: stats.into_inner(), failure: None, aborted: None };
                    match r {
                        Ok(()) => {}
                        Err(TestError::Fail(reason, minimal)) => {
                            out.failure = Some(Failure { shard, reason: reason.message().to_string(), minimal });
                        }
                        Err(TestError::Abort(reason)) => out.aborted = Some(reason.message().to_string()),
                    }
                    results.lock().unwrap().push((shard, out));
                })
                .unwrap();
        }
    });
    let mut v = results.into_inner().unwrap();
    v.sort_by_key(|x| x.0);
    let mut total = Stats::default();
    let mut failures = vec![];
    let mut aborted = vec![];
    for (_, o) in v {
        total.merge(&o.stats);
        if let Some(f) = o.failure {
            failures.push(f);
        }
        if let Some(a) = o.aborted {
            aborted.push(a);
        }
    }
    (total, failures, aborted)
}
