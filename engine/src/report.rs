//! Evidence files, replay files, known-findings handling, common CLI plumbing.
use crate::pbt::Stats;
use serde_json::{json, Value};
use std::io::Write;
use std::path::{Path, PathBuf};

pub fn verif_root() -> PathBuf {
    if let Ok(p) = std::env::var("VERIF_ROOT") {
        return PathBuf::from(p);
    }
    // the binary lives in <root>/engine/target/release/vcheck
    if let Ok(exe) = std::env::current_exe() {
        let mut p = exe.clone();
        for _ in 0..4 {
            p.pop();
        }
        if p.join("properties.jsonl").exists() {
            return p;
        }
    }
    PathBuf::from("/verif")
}

#[derive(Debug, Clone, Copy, PartialEq, Eq)]
pub enum Tier {
    Quick,
    Thorough,
}

impl Tier {
    pub fn name(self) -> &'static str {
        match self {
            Tier::Quick => "quick",
            Tier::Thorough => "thorough",
        }
    }
    pub fn pick<T>(self, q: T, t: T) -> T {
        match self {
            Tier::Quick => q,
            Tier::Thorough => t,
        }
    }
}

pub struct RunCtx {
    pub property: String,
    pub tier: Tier,
    pub seed: u64,
    pub out: std::fs::File,
    pub start: std::time::Instant,
    pub shards: usize,
    /// multiply case counts (testing aid; 100 = nominal)
    pub scale_pct: u32,
}

impl RunCtx {
    pub fn say(&mut self, s: &str) {
        let _ = writeln!(self.out, "{}", s);
    }
    pub fn cases(&self, quick: u32, thorough: u32) -> u32 {
        let n = self.tier.pick(quick, thorough) as u64 * self.scale_pct as u64 / 100;
        n.max(16) as u32
    }
}

#[derive(Debug, Clone)]
pub struct Violation {
    pub class: String,
    pub detail: String,
    pub replay: Value,
}

pub struct Summary {
    pub stats: Stats,
    pub rule: String,
    pub assumptions: Vec<String>,
    pub extra: Value,
    pub violations: Vec<Violation>,
    pub known_seen: Vec<String>,
    pub inconclusive: Vec<String>,
}

pub fn write_replay(prop: &str, v: &Value) -> PathBuf {
    let dir = verif_root().join("replays").join(prop);
    let _ = std::fs::create_dir_all(&dir);
    let text = serde_json::to_string_pretty(v).unwrap();
    let h = crate::pbt::hash_str(&text);
    let p = dir.join(format!("{:016x}.json", h));
    let _ = std::fs::write(&p, text);
    p
}

/// Write evidence, print VIOLATION / KNOWN-FINDING lines, return the exit code.
pub fn finish(ctx: &mut RunCtx, s: Summary) -> i32 {
    let wall = ctx.start.elapsed().as_secs_f64();
    let mut coverage = json!({
        "evaluations": s.stats.evaluations,
        "distinct_nontrivial": s.stats.nontrivial.len(),
        "rule": s.rule,
        "samples": s.stats.samples.iter().take(8).collect::<Vec<_>>(),
        "counters": s.stats.counters,
        "known_findings_seen": s.known_seen,
        "shards": ctx.shards,
    });
    if let (Some(c), Some(e)) = (coverage.as_object_mut(), s.extra.as_object()) {
        for (k, v) in e {
            c.insert(k.clone(), v.clone());
        }
    }
    let ev = json!({
        "property_id": ctx.property,
        "tier": ctx.tier.name(),
        "seed": ctx.seed,
        "level": "exploration",
        "coverage": coverage,
        "assumptions": s.assumptions,
        "wall_s": wall,
        "violations": s.violations.len(),
    });
    let dir = verif_root().join("evidence");
    let _ = std::fs::create_dir_all(&dir);
    let path = dir.join(format!("{}.json", ctx.property));
    let _ = std::fs::write(&path, serde_json::to_string_pretty(&ev).unwrap());
    for k in &s.known_seen {
        ctx.say(&format!("KNOWN-FINDING: property={} {}", ctx.property, k));
    }
    let mut code = 0;
    for v in &s.violations {
        let p = write_replay(&ctx.property, &v.replay);
        ctx.say(&format!("VIOLATION property={} replay={}", ctx.property, p.display()));
        ctx.say(&format!("  {}: {}", v.class, v.detail.lines().next().unwrap_or("")));
        code = 1;
    }
    if code == 0 && !s.inconclusive.is_empty() {
        for i in &s.inconclusive {
            ctx.say(&format!("INCONCLUSIVE property={} {}", ctx.property, i));
        }
        code = 2;
    }
    ctx.say(&format!(
        "{} {}: evaluations={} distinct_nontrivial={} violations={} wall={:.1}s",
        ctx.property,
        ctx.tier.name(),
        s.stats.evaluations,
        s.stats.nontrivial.len(),
        s.violations.len(),
        wall
    ));
    code
}

// ------------------------------------------------------------------ known findings

#[derive(Debug, Clone)]
pub struct Finding {
    pub id: String,
    pub property: String,
    pub also: Vec<String>,
    pub status: String,
    pub title: String,
    pub what_fails: String,
    pub repro: Option<String>,
    pub exclusion: Option<String>,
    pub signature: Option<String>,
}

pub fn load_findings() -> Vec<Finding> {
    let p = verif_root().join("known_findings.json");
    let text = match std::fs::read_to_string(&p) {
        Ok(t) => t,
        Err(_) => return vec![],
    };
    let v: Value = match serde_json::from_str(&text) {
        Ok(v) => v,
        Err(_) => return vec![],
    };
    let mut out = vec![];
    if let Some(a) = v.get("findings").and_then(|x| x.as_array()) {
        for f in a {
            let s = |k: &str| f.get(k).and_then(|x| x.as_str()).map(|x| x.to_string());
            out.push(Finding {
                id: s("id").unwrap_or_default(),
                property: s("property").unwrap_or_default(),
                also: f
                    .get("also")
                    .and_then(|x| x.as_array())
                    .map(|a| a.iter().filter_map(|x| x.as_str().map(|s| s.to_string())).collect())
                    .unwrap_or_default(),
                status: s("status").unwrap_or_default(),
                title: s("title").unwrap_or_default(),
                what_fails: s("what_fails").unwrap_or_default(),
                repro: s("repro"),
                exclusion: s("exclusion"),
                signature: s("signature"),
            });
        }
    }
    out
}

/// checks that compare *behaviour* of generated programs share the exclusion rules of the
/// miscompilation findings: a finding of C01/C02 (or one that lists C02 in `also`) applies to all
/// of them. Checks that only look at the emitted text (C03 ranges, C04 sizes, C12 call graph, C13
/// assembling) do not inherit them: a miscompiled shape must still assemble and be sized right.
const SEM_FAMILY: [&str; 7] = ["C01", "C02", "C11", "C14", "C15", "C17", "C18"];

pub fn findings_for(prop: &str) -> Vec<Finding> {
    load_findings()
        .into_iter()
        .filter(|f| {
            f.property == prop
                || f.also.iter().any(|a| a == prop)
                || (SEM_FAMILY.contains(&prop) && (f.property == "C01" || f.property == "C02" || f.also.iter().any(|a| a == "C02")))
        })
        .collect()
}

pub fn read_json(p: &Path) -> Option<Value> {
    serde_json::from_str(&std::fs::read_to_string(p).ok()?).ok()
}
