//! Exclusion rules: narrow AST predicates, each tied to one known finding (root cause).
//! A rule is applied only while its finding's repro still fails on the tree under test.
use crate::ast::*;
use crate::gen::Excl;
use std::collections::HashMap;

struct Env<'a> {
    globals: HashMap<&'a str, &'a VarDecl>,
    locals: HashMap<String, Ty>,
    fn_ret: HashMap<&'a str, Ty>,
    fn_params: HashMap<&'a str, Vec<Ty>>,
}

impl<'a> Env<'a> {
    fn ty(&self, name: &str) -> Option<Ty> {
        if name == "X" || name == "Y" {
            return Some(Ty::U8);
        }
        if let Some(t) = self.locals.get(name) {
            return Some(*t);
        }
        self.globals.get(name).map(|g| g.ty)
    }
    fn is_ptr_var(&self, name: &str) -> bool {
        self.globals.get(name).map(|g| g.ty == Ty::Ptr && g.kind == VarKind::Scalar).unwrap_or(false)
    }
    fn expr_ty(&self, e: &Expr) -> Option<Ty> {
        match e {
            Expr::Lv(LValue::Var(n)) => self.ty(n),
            Expr::Lv(LValue::Index(n, _)) => self.ty(n).map(|t| if t == Ty::Ptr { Ty::U8 } else { t }),
            Expr::Lv(LValue::Deref(_)) => Some(Ty::U8),
            Expr::IncDec(_, _, lv) | Expr::Assign(_, lv, _) => self.expr_ty(&Expr::Lv(lv.clone())),
            Expr::Un(UnOp::Neg, a) | Expr::Un(UnOp::BNot, a) => self.expr_ty(a),
            Expr::Comma(_, b) => self.expr_ty(b),
            Expr::Bin(op, a, b) => {
                if op.is_cmp() || matches!(op, BinOp::LAnd | BinOp::LOr) {
                    return Some(Ty::U8);
                }
                // a compound arithmetic operand is as wide as its widest typed operand
                let (ta, tb) = (self.expr_ty(a), self.expr_ty(b));
                let tb = if matches!(op, BinOp::Shl | BinOp::Shr) { None } else { tb };
                match (ta, tb) {
                    (Some(x), Some(y)) => Some(if x.bits() >= y.bits() { x } else { y }),
                    (Some(x), None) | (None, Some(x)) => Some(x),
                    (None, None) => None,
                }
            }
            Expr::Ternary(_, a, b) => match (self.expr_ty(a), self.expr_ty(b)) {
                (Some(x), Some(y)) => Some(if x.bits() >= y.bits() { x } else { y }),
                (Some(x), None) | (None, Some(x)) => Some(x),
                (None, None) => None,
            },
            _ => None,
        }
    }
}

fn lv_mentions(lv: &LValue, name: &str) -> bool {
    match lv {
        LValue::Var(n) => n == name,
        LValue::Index(n, i) => n == name || mentions(i, name),
        LValue::Deref(n) => n == name,
    }
}

pub fn mentions(e: &Expr, name: &str) -> bool {
    match e {
        Expr::Lit(_, _) | Expr::SizeofType(_) => false,
        Expr::SizeofVar(n) => n == name,
        Expr::AddrOf(n) => n == name,
        Expr::Lv(lv) => lv_mentions(lv, name),
        Expr::Un(_, a) => mentions(a, name),
        Expr::Bin(_, a, b) | Expr::Comma(a, b) => mentions(a, name) || mentions(b, name),
        Expr::Assign(_, lv, r) => lv_mentions(lv, name) || mentions(r, name),
        Expr::IncDec(_, _, lv) => lv_mentions(lv, name),
        Expr::Call(_, args) => args.iter().any(|a| mentions(a, name)),
        Expr::Ternary(c, a, b) => mentions(c, name) || mentions(a, name) || mentions(b, name),
    }
}

/// visit every sub-expression (pre-order)
pub fn walk<'e>(e: &'e Expr, f: &mut dyn FnMut(&'e Expr)) {
    f(e);
    match e {
        Expr::Lv(LValue::Index(_, i)) => walk(i, f),
        Expr::Un(_, a) => walk(a, f),
        Expr::Bin(_, a, b) | Expr::Comma(a, b) => {
            walk(a, f);
            walk(b, f)
        }
        Expr::Assign(_, lv, r) => {
            if let LValue::Index(_, i) = lv {
                walk(i, f);
            }
            walk(r, f)
        }
        Expr::IncDec(_, _, LValue::Index(_, i)) => walk(i, f),
        Expr::Call(_, args) => args.iter().for_each(|a| walk(a, f)),
        Expr::Ternary(c, a, b) => {
            walk(c, f);
            walk(a, f);
            walk(b, f)
        }
        _ => {}
    }
}

thread_local! {
    /// values of the program's const scalars while find_excluded runs
    static CONSTS: std::cell::RefCell<HashMap<String, i64>> = std::cell::RefCell::new(HashMap::new());
}

/// value of a constant expression (literals, sizeof(type), const scalars)
pub fn const_eval(e: &Expr) -> Option<i64> {
    match e {
        Expr::Lit(v, _) => Some(*v as i64),
        Expr::Lv(LValue::Var(n)) => CONSTS.with(|c| c.borrow().get(n).copied()),
        Expr::SizeofVar(n) => CONSTS.with(|c| c.borrow().get(&format!("sizeof:{}", n)).copied()),
        Expr::Comma(_, b) => const_eval(b),
        Expr::SizeofType(t) => Some(t.bytes() as i64),
        Expr::Un(op, a) => {
            let a = const_eval(a)?;
            Some(match op {
                UnOp::Neg => -a,
                UnOp::BNot => !a,
                UnOp::LNot => (a == 0) as i64,
            })
        }
        Expr::Bin(op, a, b) => {
            let a = const_eval(a)?;
            let b = const_eval(b)?;
            Some(match op {
                BinOp::Add => a + b,
                BinOp::Sub => a - b,
                BinOp::Mul => a * b,
                BinOp::Div => {
                    if b == 0 {
                        return None;
                    }
                    a / b
                }
                BinOp::Shl => {
                    if !(0..32).contains(&b) {
                        return None;
                    }
                    a << b
                }
                BinOp::Shr => {
                    if !(0..32).contains(&b) {
                        return None;
                    }
                    a >> b
                }
                BinOp::And => a & b,
                BinOp::Or => a | b,
                BinOp::Xor => a ^ b,
                BinOp::Lt => (a < b) as i64,
                BinOp::Le => (a <= b) as i64,
                BinOp::Gt => (a > b) as i64,
                BinOp::Ge => (a >= b) as i64,
                BinOp::Eq => (a == b) as i64,
                BinOp::Ne => (a != b) as i64,
                BinOp::LAnd => (a != 0 && b != 0) as i64,
                BinOp::LOr => (a != 0 || b != 0) as i64,
            })
        }
        _ => None,
    }
}

fn has_postfix(e: &Expr) -> bool {
    let mut found = false;
    walk(e, &mut |x| {
        if let Expr::IncDec(_, false, _) = x {
            found = true;
        }
    });
    found
}

fn has_deref_of_ptr_var(env: &Env, e: &Expr) -> bool {
    let mut found = false;
    walk(e, &mut |x| match x {
        Expr::Lv(LValue::Deref(p)) | Expr::Assign(_, LValue::Deref(p), _) | Expr::IncDec(_, _, LValue::Deref(p)) => {
            if env.is_ptr_var(p) {
                found = true;
            }
        }
        _ => {}
    });
    found
}

fn lv_bits(env: &Env, lv: &LValue) -> u32 {
    match lv {
        LValue::Var(n) if n == "#param16" => 16,
        LValue::Var(n) => env.ty(n).map(|t| t.bits()).unwrap_or(8),
        LValue::Index(n, _) => env.ty(n).map(|t| if t == Ty::Ptr { 8 } else { t.bits() }).unwrap_or(8),
        LValue::Deref(_) => 8,
    }
}

fn contains_bnot(e: &Expr) -> bool {
    let mut f = false;
    walk(e, &mut |x| {
        if let Expr::Un(UnOp::BNot, _) = x {
            f = true;
        }
    });
    f
}

/// does evaluating `e` borrow the Y register (pointer dereference, or an array indexed by
/// something else than a constant, X or Y)?
fn borrows_y(env: &Env, e: &Expr) -> bool {
    if has_deref_of_ptr_var(env, e) {
        return true;
    }
    let mut f = false;
    walk(e, &mut |x| {
        let idx = match x {
            Expr::Lv(LValue::Index(n, i)) | Expr::Assign(_, LValue::Index(n, i), _) | Expr::IncDec(_, _, LValue::Index(n, i)) => {
                if env.is_ptr_var(n) {
                    // p[Y] uses Y as it is; any other index of a pointer variable is loaded into Y
                    if !matches!(&**i, Expr::Lv(LValue::Var(v)) if v == "Y") {
                        f = true;
                    }
                    None
                } else {
                    Some(i)
                }
            }
            _ => None,
        };
        if let Some(i) = idx {
            let simple = match &**i {
                Expr::Lit(_, _) => true,
                Expr::Lv(LValue::Var(v)) => v == "X" || v == "Y",
                _ => false,
            };
            if !simple {
                f = true;
            }
        }
    });
    f
}

/// rules that look at one full expression
fn check_full_expr(env: &Env, e: &Expr, in_condition: bool, ex: &Excl) -> Option<&'static str> {
    let mut hit: Option<&'static str> = None;
    if ex.has("postfix_in_condition") {
        if in_condition && has_postfix(e) {
            return Some("postfix_in_condition");
        }
        // operands of && || and the condition of ?: are controlling expressions as well
        walk(e, &mut |x| match x {
            Expr::Bin(BinOp::LAnd, a, b) | Expr::Bin(BinOp::LOr, a, b) => {
                if has_postfix(a) || has_postfix(b) {
                    hit = Some("postfix_in_condition");
                }
            }
            Expr::Ternary(c, _, _) => {
                if has_postfix(c) {
                    hit = Some("postfix_in_condition");
                }
            }
            _ => {}
        });
        if hit.is_some() {
            return hit;
        }
    }
    if ex.has("short_array_truth_test") {
        let is_sa = |e: &Expr| match e {
            Expr::Lv(LValue::Index(n, _)) => env.ty(n).map(|t| t.bits() == 16 && t != Ty::Ptr).unwrap_or(false),
            _ => false,
        };
        if in_condition && is_sa(e) {
            return Some("short_array_truth_test");
        }
        walk(e, &mut |x| match x {
            Expr::Un(UnOp::LNot, a) if is_sa(a) => hit = Some("short_array_truth_test"),
            Expr::Bin(BinOp::LAnd, a, b) | Expr::Bin(BinOp::LOr, a, b) if is_sa(a) || is_sa(b) => hit = Some("short_array_truth_test"),
            Expr::Ternary(c, _, _) if is_sa(c) => hit = Some("short_array_truth_test"),
            _ => {}
        });
        if hit.is_some() {
            return hit;
        }
    }
    if ex.has("compound16_in_condition") {
        // a compound expression of 16-bit type used as a truth value or as an operand of a comparison
        let wide = |x: &Expr| -> bool {
            matches!(x, Expr::Bin(..) | Expr::Un(UnOp::Neg, _) | Expr::Un(UnOp::BNot, _) | Expr::Ternary(..) | Expr::Assign(..) | Expr::Comma(..))
                && !matches!(x, Expr::Bin(op, _, _) if op.is_cmp() || matches!(op, BinOp::LAnd | BinOp::LOr))
                && env.expr_ty(x).map(|t| t.bits() == 16 && t != Ty::Ptr).unwrap_or(false)
        };
        if in_condition && wide(e) {
            return Some("compound16_in_condition");
        }
        let mut hit16 = false;
        walk(e, &mut |x| match x {
            Expr::Bin(op, a, b) if op.is_cmp() && (wide(a) || wide(b)) => hit16 = true,
            Expr::Bin(BinOp::LAnd, a, b) | Expr::Bin(BinOp::LOr, a, b) if wide(a) || wide(b) => hit16 = true,
            Expr::Un(UnOp::LNot, a) if wide(a) => hit16 = true,
            Expr::Ternary(c, _, _) if wide(c) => hit16 = true,
            _ => {}
        });
        if hit16 {
            return Some("compound16_in_condition");
        }
    }
    if ex.has("y_borrow_in_condition") && in_condition && borrows_y(env, e) {
        return Some("y_borrow_in_condition");
    }
    if ex.has("y_borrow_in_condition") {
        walk(e, &mut |x| match x {
            Expr::Ternary(c, a, b) if ex.has("y_borrow_in_condition") => {
                if borrows_y(env, c) || borrows_y(env, a) || borrows_y(env, b) {
                    hit = Some("y_borrow_in_condition");
                }
            }
            Expr::Bin(BinOp::LAnd, a, b) | Expr::Bin(BinOp::LOr, a, b) if ex.has("y_borrow_in_condition") => {
                if borrows_y(env, a) || borrows_y(env, b) {
                    hit = Some("y_borrow_in_condition");
                }
            }
            Expr::Un(UnOp::LNot, a) if ex.has("y_borrow_in_condition") && borrows_y(env, a) => {
                hit = Some("y_borrow_in_condition");
            }
            _ => {}
        });
        if hit.is_some() {
            return hit;
        }
    }
    if ex.has("deref_with_y") && has_deref_of_ptr_var(env, e) && mentions(e, "Y") {
        return Some("deref_with_y");
    }
    if ex.has("var_index_with_y") && mentions(e, "Y") {
        // an array indexed by a memory variable borrows Y before the rest is evaluated
        let mut var_index = false;
        walk(e, &mut |x| {
            let idx = match x {
                Expr::Lv(LValue::Index(n, i)) | Expr::Assign(_, LValue::Index(n, i), _) | Expr::IncDec(_, _, LValue::Index(n, i)) => {
                    if env.is_ptr_var(n) {
                        None
                    } else {
                        Some(i)
                    }
                }
                _ => None,
            };
            if let Some(i) = idx {
                let simple = match &**i {
                    Expr::Lit(_, _) => true,
                    Expr::Lv(LValue::Var(v)) => v == "X" || v == "Y",
                    _ => false,
                };
                if !simple {
                    var_index = true;
                }
            }
        });
        if var_index {
            return Some("var_index_with_y");
        }
    }
    if ex.has("call_in_args") {
        walk(e, &mut |x| {
            if let Expr::Call(_, args) = x {
                for a in args {
                    walk(a, &mut |y| {
                        if matches!(y, Expr::Call(_, _)) {
                            hit = Some("call_in_args");
                        }
                    });
                }
            }
        });
        if hit.is_some() {
            return hit;
        }
    }
    {
        // an argument passed to a 16-bit parameter is an assignment to a 16-bit object
        let mut fake: Vec<Expr> = vec![];
        walk(e, &mut |x| {
            if let Expr::Call(f, args) = x {
                if let Some(pt) = env.fn_params.get(f.as_str()) {
                    for (a, t) in args.iter().zip(pt.iter()) {
                        if t.bits() == 16 && *t != Ty::Ptr {
                            fake.push(Expr::Assign(None, LValue::Var("#param16".into()), Box::new(a.clone())));
                        }
                    }
                }
            }
        });
        for f in &fake {
            if let Some(r) = check_full_expr(env, f, false, ex) {
                return Some(r);
            }
        }
    }
    if ex.has("postfix_across_sequence_point") && has_postfix(e) {
        let mut seq = false;
        walk(e, &mut |x| match x {
            Expr::Comma(_, _) | Expr::Ternary(_, _, _) | Expr::Call(_, _) | Expr::Bin(BinOp::LAnd, _, _) | Expr::Bin(BinOp::LOr, _, _) => {
                seq = true
            }
            _ => {}
        });
        if seq {
            return Some("postfix_across_sequence_point");
        }
    }
    if ex.has("constant_in_logical") {
        walk(e, &mut |x| {
            if let Expr::Bin(BinOp::LAnd, a, b) | Expr::Bin(BinOp::LOr, a, b) = x {
                if const_eval(a).is_some() || const_eval(b).is_some() {
                    hit = Some("constant_in_logical");
                }
            }
        });
        if hit.is_some() {
            return hit;
        }
    }
    if ex.has("y_borrow_with_nested_side_effect") && borrows_y(env, e) {
        // top-level assignment / ++ of the statement itself does not count
        let inner: Vec<&Expr> = match e {
            Expr::Assign(_, lv, r) => {
                let mut v = vec![&**r];
                if let LValue::Index(_, i) = lv {
                    v.push(&**i);
                }
                v
            }
            Expr::IncDec(_, _, LValue::Index(_, i)) => vec![&**i],
            Expr::IncDec(_, _, _) => vec![],
            other => vec![other],
        };
        let mut nested = false;
        for x in inner {
            walk(x, &mut |y| {
                if matches!(y, Expr::Assign(_, _, _) | Expr::IncDec(_, _, _) | Expr::Comma(_, _)) {
                    nested = true;
                }
            });
        }
        if nested {
            return Some("y_borrow_with_nested_side_effect");
        }
    }
    if ex.has("shr_of_16bit_in_8bit_context") {
        // `>>` over an operand that involves a 16-bit object, evaluated for an 8-bit destination
        let dest8 = match e {
            Expr::Assign(_, lv, _) => lv_bits(env, lv) == 8,
            _ => true,
        };
        if dest8 {
            walk(e, &mut |x| {
                if let Expr::Bin(BinOp::Shr, a, _) = x {
                    let mut wide = false;
                    walk(a, &mut |y| {
                        if env.expr_ty(y).map(|t| t.bits() == 16).unwrap_or(false) {
                            wide = true;
                        }
                    });
                    if wide {
                        hit = Some("shr_of_16bit_in_8bit_context");
                    }
                }
            });
            if hit.is_some() {
                return hit;
            }
        }
    }
    if ex.has("y_borrow_with_call") && borrows_y(env, e) {
        let mut call = false;
        walk(e, &mut |x| {
            if matches!(x, Expr::Call(_, _)) {
                call = true;
            }
        });
        if call {
            return Some("y_borrow_with_call");
        }
    }
    if ex.has("y_borrow_in_call_args") {
        walk(e, &mut |x| {
            if let Expr::Call(_, args) = x {
                if args.iter().any(|a| borrows_y(env, a)) {
                    hit = Some("y_borrow_in_call_args");
                }
            }
        });
        if hit.is_some() {
            return hit;
        }
    }
    if ex.has("postfix_in_call_args") {
        walk(e, &mut |x| {
            if let Expr::Call(_, args) = x {
                if args.iter().any(has_postfix) {
                    hit = Some("postfix_in_call_args");
                }
            }
        });
        if hit.is_some() {
            return hit;
        }
    }
    walk(e, &mut |x| {
        if hit.is_some() {
            return;
        }
        match x {
            Expr::Un(UnOp::BNot, a) => {
                if ex.has("bnot16") && env.expr_ty(a).map(|t| t.bits() == 16).unwrap_or(false) {
                    hit = Some("bnot16");
                }
                if ex.has("bnot_const") && const_eval(a).is_some() {
                    hit = Some("bnot_const");
                }
            }
            Expr::Assign(_, lv, r)
                if ex.has("nested_assign_to_16bit")
                    && lv_bits(env, lv) == 16
                    && matches!(&**r, Expr::Assign(_, l2, _) if lv_bits(env, l2) == 8) =>
            {
                hit = Some("nested_assign_to_16bit");
            }
            Expr::Assign(Some(BinOp::Shl | BinOp::Shr), LValue::Var(n) | LValue::Index(n, _), _)
                if ex.has("rmw_shift16_splitport")
                    && env.locals.get(n).is_none()
                    && env
                        .globals
                        .get(n.as_str())
                        .map(|g| g.ty.bits() == 16 && matches!(g.mem, MemQual::Superchip | MemQual::Bank(_)))
                        .unwrap_or(false) =>
            {
                hit = Some("rmw_shift16_splitport");
            }
            Expr::Assign(_, lv, r) if ex.has("bnot16") && lv_bits(env, lv) == 16 && contains_bnot(r) => {
                hit = Some("bnot16");
            }
            Expr::Assign(_, lv, r) if ex.has("shr8_signed16") && lv_bits(env, lv) == 16 && {
                let mut f = false;
                walk(r, &mut |y| {
                    if let Expr::Bin(BinOp::Shr, a, _) = y {
                        if env.expr_ty(a).map(|t| t == Ty::I16).unwrap_or(false) {
                            f = true;
                        }
                    }
                });
                f
            } =>
            {
                hit = Some("shr8_signed16");
            }
            Expr::Assign(Some(BinOp::Shl), LValue::Index(n, _), _) | Expr::Assign(Some(BinOp::Shr), LValue::Index(n, _), _)
                if ex.has("short_array_shift") && env.ty(n).map(|t| t.bits() == 16 && t != Ty::Ptr).unwrap_or(false) =>
            {
                hit = Some("short_array_shift");
            }
            Expr::Bin(op, _, b)
                if !matches!(op, BinOp::LAnd | BinOp::LOr)
                    && ex.has("logical_as_right_operand")
                    && matches!(**b, Expr::Un(UnOp::LNot, _) | Expr::Bin(BinOp::LAnd, _, _) | Expr::Bin(BinOp::LOr, _, _)) =>
            {
                hit = Some("logical_as_right_operand");
            }
            Expr::Bin(_, l, r)
                if ex.has("identity_op_on_register_operand")
                    && !matches!(**l, Expr::Lit(_, _) | Expr::Lv(LValue::Var(_)))
                    && match &**r {
                        Expr::Bin(BinOp::Or | BinOp::Xor | BinOp::Add | BinOp::Sub | BinOp::Shl | BinOp::Shr, a, b) => {
                            let reg = |e: &Expr| matches!(e, Expr::Lv(LValue::Var(v)) if v == "X" || v == "Y");
                            (reg(a) && const_eval(b) == Some(0)) || (reg(b) && const_eval(a) == Some(0))
                        }
                        _ => false,
                    } =>
            {
                hit = Some("identity_op_on_register_operand");
            }
            Expr::Assign(_, lv, r)
                if ex.has("deref_store_bool_rhs")
                    && match lv {
                        LValue::Deref(p) => env.is_ptr_var(p),
                        LValue::Index(p, i) => {
                            env.is_ptr_var(p)
                                || !match &**i {
                                    Expr::Lit(_, _) => true,
                                    Expr::Lv(LValue::Var(v)) => v == "X" || v == "Y",
                                    _ => false,
                                }
                        }
                        _ => false,
                    }
                    && {
                    let mut f = false;
                    walk(r, &mut |y| match y {
                        Expr::Un(UnOp::LNot, _) | Expr::Ternary(_, _, _) => f = true,
                        Expr::Bin(op, _, _) if op.is_cmp() || matches!(op, BinOp::LAnd | BinOp::LOr) => f = true,
                        _ => {}
                    });
                    f
                } =>
            {
                hit = Some("deref_store_bool_rhs");
            }
            Expr::Assign(_, lv, r)
                if ex.has("deref_store_complex_rhs")
                    && match lv {
                        LValue::Deref(p) => env.is_ptr_var(p),
                        LValue::Index(p, i) => {
                            env.is_ptr_var(p)
                                || !match &**i {
                                    Expr::Lit(_, _) => true,
                                    Expr::Lv(LValue::Var(v)) => v == "X" || v == "Y",
                                    _ => false,
                                }
                        }
                        _ => false,
                    }
                    && {
                    let mut f = false;
                    walk(r, &mut |y| {
                        if matches!(y, Expr::Assign(_, _, _) | Expr::IncDec(_, _, _) | Expr::Comma(_, _) | Expr::Call(_, _)) {
                            f = true;
                        }
                    });
                    f
                } =>
            {
                hit = Some("deref_store_complex_rhs");
            }
            Expr::Assign(_, lv, r)
                if lv_bits(env, lv) == 16 && (ex.has("add16_register_operand") || ex.has("signed_array_var_index_to_16")) && {
                    let mut reg = false;
                    let mut sidx = false;
                    walk(r, &mut |y| match y {
                        Expr::Bin(BinOp::Add, a, b) | Expr::Bin(BinOp::Sub, a, b) => {
                            let is_reg = |e: &Expr| matches!(e, Expr::Lv(LValue::Var(v)) if v == "X" || v == "Y");
                            if is_reg(a) || is_reg(b) {
                                reg = true;
                            }
                            // the result of a call has the same high byte as a register: the constant 0,
                            // which is folded with a constant on the other side (without the carry)
                            let is_call = |e: &Expr| matches!(e, Expr::Call(_, _));
                            let is_const = |e: &Expr| match e {
                                Expr::Lit(_, _) => true,
                                Expr::Un(_, x) => matches!(**x, Expr::Lit(_, _)),
                                Expr::Lv(LValue::Var(v)) => env.globals.get(v.as_str()).map(|g| matches!(g.kind, VarKind::ConstScalar(_))).unwrap_or(false),
                                _ => false,
                            };
                            if (is_call(a) && is_const(b)) || (is_call(b) && is_const(a)) {
                                reg = true;
                            }
                        }
                        Expr::Lv(LValue::Index(n, i)) => {
                            let simple = match &**i {
                                Expr::Lit(_, _) => true,
                                Expr::Lv(LValue::Var(v)) => v == "X" || v == "Y",
                                _ => false,
                            };
                            if !simple && env.ty(n) == Some(Ty::I8) {
                                sidx = true;
                            }
                        }
                        _ => {}
                    });
                    (reg && ex.has("add16_register_operand")) || (sidx && ex.has("signed_array_var_index_to_16"))
                } =>
            {
                hit = Some("add16_register_operand/signed_array_var_index_to_16");
            }
            Expr::Bin(op, a, b)
                if ex.has("comma_in_compare_operand") && op.is_cmp() && (matches!(**a, Expr::Comma(_, _)) || matches!(**b, Expr::Comma(_, _))) =>
            {
                hit = Some("comma_in_compare_operand");
            }
            Expr::Bin(BinOp::Shr, a, _)
                if ex.has("short_array_shr8")
                    && matches!(&**a, Expr::Lv(LValue::Index(n, _)) if env.ty(n).map(|t| t.bits() == 16 && t != Ty::Ptr).unwrap_or(false)) =>
            {
                hit = Some("short_array_shr8");
            }
            Expr::Bin(op, a, b)
                if ex.has("signed_call_result")
                    && (op.is_rel() || *op == BinOp::Shr)
                    && {
                        let signed_call = |e: &Expr| match e {
                            Expr::Call(f, _) => env.fn_ret.get(f.as_str()).map(|t| t.signed()).unwrap_or(false),
                            _ => false,
                        };
                        signed_call(a) || (op.is_rel() && signed_call(b))
                    } =>
            {
                hit = Some("signed_call_result");
            }
            Expr::Bin(op, a, b)
                if ex.has("nested_assign_in_compare")
                    && (op.is_cmp() || *op == BinOp::Shr)
                    && (yields_assign(a) || (op.is_cmp() && yields_assign(b))) =>
            {
                hit = Some("nested_assign_in_compare");
            }
            Expr::Assign(op, LValue::Var(l), r)
                if ex.has("self_assign") && {
                    // `v = v`, `v = (w = v)`, `v |= 0`, `v += 0` ...: no code is emitted for v
                    fn yields(e: &Expr, l: &str) -> bool {
                        match e {
                            Expr::Lv(LValue::Var(v)) => v == l,
                            Expr::Assign(None, _, r) => yields(r, l),
                            Expr::Comma(_, b) => yields(b, l),
                            _ => false,
                        }
                    }
                    match op {
                        None => yields(r, l),
                        Some(BinOp::Or | BinOp::Xor | BinOp::Add | BinOp::Sub) => {
                            let eight = env.ty(l).map(|t| t.bits() == 8).unwrap_or(true);
                            match const_eval(r) {
                                Some(0) => true,
                                Some(v) => eight && (v & 0xff) == 0,
                                None => false,
                            }
                        }
                        Some(BinOp::Shl | BinOp::Shr) => const_eval(r) == Some(0),
                        Some(BinOp::And) => matches!(const_eval(r), Some(255) | Some(-1) | Some(65535)),
                        _ => false,
                    }
                } =>
            {
                hit = Some("self_assign");
            }
            Expr::Bin(_, a, b)
                if ex.has("call_result_clobbered")
                    && matches!(**a, Expr::Call(_, _))
                    && !matches!(**b, Expr::Lit(_, _) | Expr::Lv(LValue::Var(_))) =>
            {
                hit = Some("call_result_clobbered");
            }
            Expr::Bin(BinOp::Le | BinOp::Gt, a, b)
                if ex.has("le_gt_16bit")
                    && (env.expr_ty(a).map(|t| t.bits() == 16).unwrap_or(false) || env.expr_ty(b).map(|t| t.bits() == 16).unwrap_or(false)) =>
            {
                hit = Some("le_gt_16bit");
            }
            Expr::Bin(op, a, b)
                if op.is_cmp() && ex.has("cmp16_vs_8") && {
                    let ta = env.expr_ty(a).map(|t| t.bits());
                    let tb = env.expr_ty(b).map(|t| t.bits());
                    matches!((ta, tb), (Some(16), Some(8)) | (Some(8), Some(16)))
                } =>
            {
                hit = Some("cmp16_vs_8");
            }
            Expr::Bin(BinOp::Eq, _, b) | Expr::Bin(BinOp::Ne, _, b)
                if ex.has("eq_rel_same_level") && matches!(&**b, Expr::Bin(o, _, _) if o.is_rel()) =>
            {
                hit = Some("eq_rel_same_level");
            }
            Expr::Bin(op, a, b)
                if op.is_cmp() && ex.has("indexed_vs_register_compare") && {
                    fn last(e: &Expr) -> &Expr {
                        match e {
                            Expr::Comma(_, b) => last(b),
                            o => o,
                        }
                    }
                    let reg = |e: &Expr| match last(e) {
                        Expr::Lv(LValue::Var(v)) | Expr::IncDec(_, _, LValue::Var(v)) => v == "X" || v == "Y",
                        _ => false,
                    };
                    let idx = |e: &Expr| matches!(last(e), Expr::Lv(LValue::Index(_, _)));
                    (reg(a) && idx(b)) || (idx(a) && reg(b))
                } =>
            {
                hit = Some("indexed_vs_register_compare");
            }
            Expr::Bin(op, a, b) => {
                let zero_r = const_eval(b) == Some(0);
                let zero_l = const_eval(a) == Some(0);
                if ex.has("gt_lte_zero")
                    && ((zero_r && matches!(op, BinOp::Gt | BinOp::Le)) || (zero_l && matches!(op, BinOp::Lt | BinOp::Ge)))
                {
                    hit = Some("gt_lte_zero");
                }
                if ex.has("unsigned_ge_lt_zero") {
                    let (other, applies) = if zero_r && matches!(op, BinOp::Ge | BinOp::Lt) {
                        (Some(a), true)
                    } else if zero_l && matches!(op, BinOp::Le | BinOp::Gt) {
                        (Some(b), true)
                    } else {
                        (None, false)
                    };
                    if applies {
                        let signed = other.and_then(|o| env.expr_ty(o)).map(|t| t.signed()).unwrap_or(false);
                        if !signed {
                            hit = Some("unsigned_ge_lt_zero");
                        }
                    }
                }
            }
            Expr::Lv(LValue::Index(n, i)) | Expr::Assign(_, LValue::Index(n, i), _) | Expr::IncDec(_, _, LValue::Index(n, i)) => {
                let wide = env.ty(n).map(|t| t.bits() == 16 && t != Ty::Ptr).unwrap_or(false);
                if wide {
                    let simple = match &**i {
                        Expr::Lit(_, _) => true,
                        Expr::Lv(LValue::Var(v)) => v == "X" || v == "Y",
                        _ => false,
                    };
                    if !simple && ex.has("short_array_var_index") {
                        hit = Some("short_array_var_index");
                    }
                    if matches!(x, Expr::IncDec(_, _, _)) && ex.has("short_array_incdec") {
                        hit = Some("short_array_incdec");
                    }
                }
            }
            _ => {}
        }
    });
    hit
}

/// first expression evaluated by a statement
fn first_expr(s: &Stmt) -> Option<&Expr> {
    match s {
        Stmt::Expr(e) | Stmt::If(e, _, _) | Stmt::While(e, _) | Stmt::Switch(e, _, _) | Stmt::Return(Some(e)) | Stmt::Load(e) => Some(e),
        Stmt::Decl(d) => d.init.as_ref(),
        Stmt::For(i, c, _, _) => i.as_ref().or(c.as_ref()),
        Stmt::Block(b) => b.first().and_then(first_expr),
        Stmt::DoWhile(b, _) => first_expr(b),
        Stmt::Label(_, s) => first_expr(s),
        _ => None,
    }
}

/// last statement executed by `s` when it is straight-line (descends into blocks/labels)
fn last_simple(s: &Stmt) -> &Stmt {
    match s {
        Stmt::Block(b) if !b.is_empty() => last_simple(b.last().unwrap()),
        Stmt::Label(_, x) => last_simple(x),
        other => other,
    }
}

fn check_list(env: &mut Env, v: &[Stmt], ex: &Excl) -> Option<&'static str> {
    for (i, s0) in v.iter().enumerate() {
        let s = last_simple(s0);
        if ex.has("incdec16_then_test") {
            if let Stmt::Expr(Expr::IncDec(_, _, LValue::Var(n))) = s {
                if env.ty(n).map(|t| t.bits() == 16 && t != Ty::Ptr).unwrap_or(false) {
                    for k in 1..=2 {
                        if let Some(e) = v.get(i + k).and_then(first_expr) {
                            if mentions(e, n) {
                                return Some("incdec16_then_test");
                            }
                        }
                    }
                }
            }
        }
        if ex.has("reg_store_then_test") {
            if let Stmt::Expr(Expr::Assign(None, lv, r)) = s {
                let n = match lv {
                    LValue::Var(n) | LValue::Index(n, _) | LValue::Deref(n) => n,
                };
                if matches!(&**r, Expr::Lv(LValue::Var(v)) if v == "X" || v == "Y") {
                    if let Some(e) = v.get(i + 1).and_then(first_expr) {
                        if mentions(e, n) {
                            return Some("reg_store_then_test");
                        }
                    }
                }
            }
        }
        if ex.has("shift16_keeps_stale_flags") {
            if let Stmt::Expr(Expr::Assign(Some(BinOp::Shl | BinOp::Shr), LValue::Var(n), _)) = s {
                if env.ty(n).map(|t| t.bits() == 16 && t != Ty::Ptr).unwrap_or(false) {
                    // the stale knowledge survives statements that do not touch the flags
                    // (register stores): look a few statements ahead
                    for k in 1..=3 {
                        if let Some(next) = v.get(i + k) {
                            let tests = match next {
                                Stmt::If(..) | Stmt::While(..) | Stmt::DoWhile(..) | Stmt::For(..) | Stmt::Switch(..) => true,
                                other => first_expr(other).map(has_truth_test).unwrap_or(false),
                            };
                            if tests {
                                return Some("shift16_keeps_stale_flags");
                            }
                        }
                    }
                }
            }
        }
        if let Some(r) = check_stmt(env, s0, ex) {
            return Some(r);
        }
    }
    None
}

fn vars_of(e: &Expr, out: &mut Vec<String>) {
    walk(e, &mut |x| match x {
        Expr::Lv(LValue::Var(n)) | Expr::Lv(LValue::Index(n, _)) | Expr::Lv(LValue::Deref(n)) => out.push(n.clone()),
        Expr::Assign(_, LValue::Var(n), _) | Expr::IncDec(_, _, LValue::Var(n)) => out.push(n.clone()),
        _ => {}
    });
}

fn shares_var(a: &Expr, b: &Expr) -> bool {
    let mut va = vec![];
    let mut vb = vec![];
    vars_of(a, &mut va);
    vars_of(b, &mut vb);
    va.iter().any(|x| vb.contains(x))
}

fn has_truth_test(e: &Expr) -> bool {
    let mut f = false;
    walk(e, &mut |y| match y {
        Expr::Un(UnOp::LNot, _) | Expr::Ternary(_, _, _) => f = true,
        Expr::Bin(op, _, _) if op.is_cmp() || matches!(op, BinOp::LAnd | BinOp::LOr) => f = true,
        _ => {}
    });
    f
}

fn check_stmt(env: &mut Env, s: &Stmt, ex: &Excl) -> Option<&'static str> {
    match s {
        Stmt::Expr(e) => check_full_expr(env, e, false, ex),
        Stmt::Decl(d) => {
            env.locals.insert(d.name.clone(), d.ty);
            // an initialiser is an assignment to the new variable
            d.init.as_ref().and_then(|e| {
                let asg = Expr::Assign(None, LValue::Var(d.name.clone()), Box::new(e.clone()));
                check_full_expr(env, &asg, false, ex)
            })
        }
        Stmt::Block(b) => {
            let saved = env.locals.clone();
            let r = check_list(env, b, ex);
            env.locals = saved;
            r
        }
        Stmt::If(c, _, Some(eb))
            if ex.has("else_after_shortcircuit") && {
                let mut sc = false;
                walk(c, &mut |x| {
                    if matches!(x, Expr::Bin(BinOp::LAnd, _, _) | Expr::Bin(BinOp::LOr, _, _)) {
                        sc = true;
                    }
                });
                fn first_stmt(s: &Stmt) -> &Stmt {
                    match s {
                        Stmt::Block(b) if !b.is_empty() => first_stmt(&b[0]),
                        Stmt::Label(_, x) => first_stmt(x),
                        o => o,
                    }
                }
                let fs = first_stmt(eb);
                sc && first_expr(fs)
                    .map(|e| (has_truth_test(e) || matches!(fs, Stmt::If(..) | Stmt::While(..) | Stmt::Switch(..))) && shares_var(c, e))
                    .unwrap_or(false)
            } =>
        {
            Some("else_after_shortcircuit")
        }
        Stmt::If(c, a, b) => check_full_expr(env, c, true, ex)
            .or_else(|| check_stmt(env, a, ex))
            .or_else(|| b.as_ref().and_then(|b| check_stmt(env, b, ex))),
        Stmt::While(c, b) | Stmt::DoWhile(b, c) => check_full_expr(env, c, true, ex).or_else(|| check_stmt(env, b, ex)),
        Stmt::For(i, c, u, b) => i
            .as_ref()
            .and_then(|e| check_full_expr(env, e, false, ex))
            .or_else(|| c.as_ref().and_then(|e| check_full_expr(env, e, true, ex)))
            .or_else(|| u.as_ref().and_then(|e| check_full_expr(env, e, false, ex)))
            .or_else(|| check_stmt(env, b, ex)),
        Stmt::Switch(e, cases, d) => check_full_expr(env, e, true, ex)
            .or_else(|| cases.iter().find_map(|c| check_list(env, &c.body, ex)))
            .or_else(|| d.as_ref().and_then(|d| check_list(env, d, ex))),
        Stmt::Label(_, s) => check_stmt(env, s, ex),
        Stmt::Return(Some(e)) => {
            if ex.has("return_postfix") && has_postfix(e) {
                return Some("return_postfix");
            }
            if ex.has("return_borrows_y") && borrows_y(env, e) {
                return Some("return_borrows_y");
            }
            check_full_expr(env, e, false, ex)
        }
        Stmt::Load(e) => check_full_expr(env, e, false, ex),
        _ => None,
    }
}

/// first active exclusion rule the program falls under
pub fn find_excluded(p: &Program, ex: &Excl) -> Option<&'static str> {
    if ex.active.is_empty() {
        return None;
    }
    CONSTS.with(|c| {
        let mut c = c.borrow_mut();
        c.clear();
        for g in &p.globals {
            if let VarKind::ConstScalar(v) = g.kind {
                c.insert(g.name.clone(), v as i64);
            }
            c.insert(format!("sizeof:{}", g.name), (g.len() * g.ty.bytes() as usize) as i64);
        }
    });
    for f in &p.funcs {
        let mut env = Env {
            globals: p.globals.iter().map(|g| (g.name.as_str(), g)).collect(),
            locals: HashMap::new(),
            fn_ret: p.funcs.iter().filter_map(|f| f.ret.map(|t| (f.name.as_str(), t))).collect(),
            fn_params: p.funcs.iter().map(|f| (f.name.as_str(), f.params.iter().map(|p| p.1).collect())).collect(),
        };
        for (n, t) in &f.params {
            env.locals.insert(n.clone(), *t);
        }
        if let Some(r) = check_list(&mut env, &f.body, ex) {
            return Some(r);
        }
    }
    None
}

/// the value of the expression is (on some path) the value of a nested assignment
fn yields_assign(e: &Expr) -> bool {
    match e {
        Expr::Assign(_, _, _) => true,
        Expr::Ternary(_, a, b) => yields_assign(a) || yields_assign(b),
        Expr::Comma(_, b) => yields_assign(b),
        _ => false,
    }
}
