//! Thin wrapper around cc6502's public API: `compile()` + our own builder (a copy of what the
//! repository's test builder does per function), results captured through a thread-local.
use cc6502::assemble::AssemblyCode;
use cc6502::compile::*;
use cc6502::error::Error;
use cc6502::generate::*;
use cc6502::Args;
use clap::Parser;
use std::cell::RefCell;
use std::collections::{BTreeMap, BTreeSet};
use std::io::Write;

#[derive(Debug, Clone, PartialEq)]
pub struct VarInfo {
    pub name: String,
    pub var_type: VariableType,
    pub var_const: bool,
    pub signed: bool,
    pub memory: VariableMemory,
    pub size: usize,
    pub alignment: usize,
    pub def: Def,
    pub global: bool,
    pub debug: String,
}

#[derive(Debug, Clone, PartialEq)]
pub enum Val {
    Int(i32),
    Lo(String, i32),
    Hi(String, i32),
}

#[derive(Debug, Clone, PartialEq)]
pub enum Def {
    None,
    Value(Val),
    Array(Vec<Val>),
    ArrayOfPointers(Vec<(String, i32)>),
}

#[derive(Debug, Clone, PartialEq)]
pub struct FuncInfo {
    pub name: String,
    pub inline: bool,
    pub bank: u32,
    pub interrupt: bool,
    pub has_code: bool,
    pub local_variables: Vec<String>,
    pub size_bytes: u32,
    pub asm: String,
    pub opt_removed: u32,
    pub branch_fixes: u32,
    pub debug: String,
}

#[derive(Debug, Clone, Default, PartialEq)]
pub struct Capture {
    pub vars: Vec<VarInfo>,
    pub funcs: Vec<FuncInfo>,
    pub call_tree: BTreeMap<String, Vec<String>>,
    pub in_use: BTreeSet<String>,
    pub preprocessed: String,
    pub mapped_lines: Vec<(String, u32, Option<(String, u32)>)>,
    pub included_assembler: Vec<String>,
    pub output: String,
}

#[derive(Debug, Clone, PartialEq)]
pub enum CcError {
    Io(String),
    Syntax { filename: String, included_in: Option<(String, u32)>, line: u32, msg: String },
    Compiler { filename: String, included_in: Option<(String, u32)>, line: u32, msg: String },
    Unimplemented(String),
    Configuration(String),
}

impl CcError {
    pub fn msg(&self) -> String {
        match self {
            CcError::Io(s) | CcError::Unimplemented(s) | CcError::Configuration(s) => s.clone(),
            CcError::Syntax { msg, .. } | CcError::Compiler { msg, .. } => msg.clone(),
        }
    }
    pub fn loc(&self) -> Option<(&str, u32, &Option<(String, u32)>)> {
        match self {
            CcError::Syntax { filename, line, included_in, .. }
            | CcError::Compiler { filename, line, included_in, .. } => Some((filename, *line, included_in)),
            _ => None,
        }
    }
}

#[derive(Debug, Clone, PartialEq)]
pub struct PanicSig {
    pub message: String,
    pub location: String,
    /// normalised signature: file + normalised message
    pub sig: String,
}

#[derive(Debug, Clone, PartialEq)]
pub enum Outcome {
    Ok(Box<Capture>),
    Err(CcError),
    Panic(PanicSig),
}

impl Outcome {
    pub fn kind(&self) -> &'static str {
        match self {
            Outcome::Ok(_) => "ok",
            Outcome::Err(_) => "err",
            Outcome::Panic(_) => "panic",
        }
    }
    pub fn ok(&self) -> Option<&Capture> {
        if let Outcome::Ok(c) = self { Some(c) } else { None }
    }
}

#[derive(Debug, Clone)]
pub struct Opts {
    pub opt_level: u8,
    pub signed_chars: bool,
    pub insert_code: bool,
    pub warnings: Vec<String>,
    pub defines: Vec<String>,
    pub include_dirs: Vec<String>,
    pub filename: String,
    /// bankswitching scheme handed to GeneratorState::new (as cc2600's builder does)
    pub scheme: String,
    /// follow the test builder: optimize iff level > 0, then check_branches
    pub run_optimizer: Option<bool>,
    pub run_check_branches: bool,
}

impl Default for Opts {
    fn default() -> Self {
        Opts {
            opt_level: 1,
            signed_chars: false,
            insert_code: false,
            warnings: vec![],
            defines: vec![],
            include_dirs: vec![],
            filename: "main.c".to_string(),
            scheme: "4K".to_string(),
            run_optimizer: None,
            run_check_branches: true,
        }
    }
}

impl Opts {
    pub fn o(level: u8) -> Opts {
        Opts { opt_level: level, ..Default::default() }
    }
    pub fn argv(&self) -> Vec<String> {
        let mut a = vec!["cc".to_string(), format!("-O{}", self.opt_level)];
        if self.signed_chars {
            a.push("--fsigned_char".into());
        }
        if self.insert_code {
            a.push("--insert-code".into());
        }
        for w in &self.warnings {
            a.push(format!("-W{}", w));
        }
        for d in &self.defines {
            a.push(format!("-D{}", d));
        }
        for i in &self.include_dirs {
            a.push("-I".into());
            a.push(i.clone());
        }
        a.push(self.filename.clone());
        a
    }
    pub fn describe(&self) -> Vec<String> {
        let mut a = self.argv();
        a.push(format!("scheme={}", self.scheme));
        a
    }
}

struct BuildCfg {
    scheme: &'static str,
    run_optimizer: Option<bool>,
    run_check_branches: bool,
}

thread_local! {
    static CFG: RefCell<BuildCfg> = RefCell::new(BuildCfg { scheme: "4K", run_optimizer: None, run_check_branches: true });
    static CAPTURE: RefCell<Option<Capture>> = RefCell::new(None);
    static LAST_PANIC: RefCell<Option<(String, String)>> = RefCell::new(None);
}

fn conv_val(v: &VariableValue) -> Val {
    match v {
        VariableValue::Int(i) => Val::Int(*i),
        VariableValue::LowPtr((s, o)) => Val::Lo(s.clone(), *o),
        VariableValue::HiPtr((s, o)) => Val::Hi(s.clone(), *o),
    }
}

fn conv_def(d: &VariableDefinition) -> Def {
    match d {
        VariableDefinition::None => Def::None,
        VariableDefinition::Value(v) => Def::Value(conv_val(v)),
        VariableDefinition::Array(a) => Def::Array(a.iter().map(conv_val).collect()),
        VariableDefinition::ArrayOfPointers(a) => Def::ArrayOfPointers(a.clone()),
    }
}

const FUNC_MARK: &str = "\u{1}FUNC ";
const FUNC_END: &str = "\u{1}END\n";

fn builder(cs: &CompilerState, writer: &mut dyn Write, args: &Args) -> Result<(), Error> {
    let (scheme, run_opt, run_cb) = CFG.with(|c| {
        let c = c.borrow();
        (c.scheme, c.run_optimizer, c.run_check_branches)
    });
    let mut cap = Capture::default();
    cap.preprocessed = cs.preprocessed_utf8.to_string();
    cap.mapped_lines = cs
        .mapped_lines
        .iter()
        .map(|l| (l.0.to_string(), l.1, l.2.as_ref().map(|i| (i.0.to_string(), i.1))))
        .collect();
    cap.included_assembler = cs.included_assembler.iter().map(|a| a.0.clone()).collect();
    for (name, v) in cs.sorted_variables().iter() {
        cap.vars.push(VarInfo {
            name: (*name).clone(),
            var_type: v.var_type,
            var_const: v.var_const,
            signed: v.signed,
            memory: v.memory,
            size: v.size,
            alignment: v.alignment,
            def: conv_def(&v.def),
            global: v.global,
            debug: format!(
                "{:?} const={} signed={} mem={:?} size={} align={} def={:?} rev={} scat={:?} hdma={} nohdma={} npc={} global={}",
                v.var_type, v.var_const, v.signed, v.memory, v.size, v.alignment, v.def, v.reversed, v.scattered,
                v.holeydma, v.noholeydma, v.nopagecross, v.global
            ),
        });
    }
    let mut g = GeneratorState::new(cs, writer, args.insert_code, args.warnings.clone(), scheme);
    let mut per: BTreeMap<String, (u32, u32)> = BTreeMap::new();
    let do_opt = run_opt.unwrap_or(args.optimization_level > 0);
    for f in cs.sorted_functions().iter() {
        if f.1.code.is_some() {
            g.current_bank = f.1.bank;
            g.local_label_counter_for = 0;
            g.local_label_counter_if = 0;
            g.functions_code.insert(f.0.clone(), AssemblyCode::new());
            g.current_function = Some(f.0.clone());
            g.generate_statement(f.1.code.as_ref().unwrap())?;
            g.current_function = None;
            let mut removed = 0;
            if do_opt {
                removed = g.optimize_function(f.0);
            }
            let mut fixes = 0;
            if run_cb {
                fixes = g.check_branches(f.0);
            }
            per.insert(f.0.clone(), (removed, fixes));
        }
    }
    g.compute_functions_actually_in_use()?;
    for (k, v) in g.functions_call_tree.iter() {
        cap.call_tree.insert(k.clone(), v.clone());
    }
    cap.in_use = g.functions_actually_in_use.iter().cloned().collect();
    for f in cs.sorted_functions().iter() {
        let mut fi = FuncInfo {
            name: f.0.clone(),
            inline: f.1.inline,
            bank: f.1.bank,
            interrupt: f.1.interrupt,
            has_code: f.1.code.is_some(),
            local_variables: f.1.local_variables.clone(),
            size_bytes: 0,
            asm: String::new(),
            opt_removed: 0,
            branch_fixes: 0,
            debug: format!(
                "inline={} bank={} interrupt={} code={} locals={:?}",
                f.1.inline,
                f.1.bank,
                f.1.interrupt,
                f.1.code.is_some(),
                f.1.local_variables
            ),
        };
        if f.1.code.is_some() {
            fi.size_bytes = g.functions_code.get(f.0).unwrap().size_bytes();
            let p = per.get(f.0).copied().unwrap_or((0, 0));
            fi.opt_removed = p.0;
            fi.branch_fixes = p.1;
            g.write(&format!("{}{}\n", FUNC_MARK, f.0))?;
            g.write_function(f.0)?;
            g.write(FUNC_END)?;
        }
        cap.funcs.push(fi);
    }
    CAPTURE.with(|c| *c.borrow_mut() = Some(cap));
    Ok(())
}

fn conv_err(e: Error) -> CcError {
    match e {
        Error::Io(e) => CcError::Io(format!("{}", e)),
        Error::Syntax { filename, included_in, line, msg } => CcError::Syntax { filename, included_in, line, msg },
        Error::Compiler { filename, included_in, line, msg } => CcError::Compiler { filename, included_in, line, msg },
        Error::Unimplemented { feature } => CcError::Unimplemented(feature.to_string()),
        Error::Configuration { error } => CcError::Configuration(error),
    }
}

fn leak_scheme(s: &str) -> &'static str {
    match s {
        "4K" => "4K",
        "3E" => "3E",
        "3EP" => "3EP",
        "F8S" => "F8S",
        "F8" => "F8",
        "DPC" => "DPC",
        "DPC+" => "DPC+",
        _ => "4K",
    }
}

/// Normalise a panic message: digits -> N, quoted/backticked text -> Q
pub fn normalise_msg(m: &str) -> String {
    let mut out = String::new();
    let mut chars = m.chars().peekable();
    let mut last_n = false;
    while let Some(c) = chars.next() {
        if c.is_ascii_digit() {
            if !last_n {
                out.push('N');
            }
            last_n = true;
            continue;
        }
        last_n = false;
        if c == '"' || c == '`' || c == '\'' {
            let mut closed = false;
            let mut buf = String::new();
            for d in chars.by_ref() {
                if d == c {
                    closed = true;
                    break;
                }
                buf.push(d);
            }
            if closed {
                out.push('Q');
            } else {
                out.push(c);
                out.push_str(&buf);
            }
            continue;
        }
        out.push(c);
    }
    if out.len() > 160 {
        let mut cut = 160;
        while !out.is_char_boundary(cut) {
            cut -= 1;
        }
        out.truncate(cut);
    }
    out
}

static FRAME_CACHE: std::sync::Mutex<std::collections::BTreeMap<String, String>> = std::sync::Mutex::new(std::collections::BTreeMap::new());

pub fn install_panic_hook() {
    std::panic::set_hook(Box::new(|info| {
        let msg = if let Some(s) = info.payload().downcast_ref::<&str>() {
            s.to_string()
        } else if let Some(s) = info.payload().downcast_ref::<String>() {
            s.clone()
        } else {
            "<non-string panic>".to_string()
        };
        let mut loc = info.location().map(|l| format!("{}:{}", l.file(), l.line())).unwrap_or_default();
        // the signature names the cc6502 function containing the panic site (stable when
        // unrelated lines move; distinguishes two unwrap()s of one file). Capturing and symbolising
        // a backtrace is slow (and serialised between threads): a panic site inside cc6502's own
        // sources always lies in the same function, so its answer is remembered per location.
        let in_cc6502 = loc.contains("/repo/src/") || loc.starts_with("src/");
        let cached = if in_cc6502 { FRAME_CACHE.lock().ok().and_then(|c| c.get(&loc).cloned()) } else { None };
        let frame = match cached {
            Some(f) => Some(f),
            None => {
                let bt = std::backtrace::Backtrace::force_capture().to_string();
                let f = first_cc6502_frame(&bt);
                if in_cc6502 {
                    if let (Some(f), Ok(mut c)) = (&f, FRAME_CACHE.lock()) {
                        c.insert(loc.clone(), f.clone());
                    }
                }
                f
            }
        };
        if let Some(f) = frame {
            loc = format!("{}@{}", f, loc);
        }
        LAST_PANIC.with(|p| *p.borrow_mut() = Some((msg, loc)));
    }));
}

fn first_cc6502_frame(bt: &str) -> Option<String> {
    for line in bt.lines() {
        let t = line.trim();
        // lines look like "12: cc6502::compile::parse_int" or "12: <cc6502::...>::method"
        if let Some(i) = t.find("cc6502::") {
            if t.contains(" at ") && !t.contains(": ") {
                continue;
            }
            let mut name: String = t[i..].to_string();
            // strip closure markers and generic noise
            if let Some(j) = name.find("::{{closure}}") {
                name.truncate(j);
            }
            if let Some(j) = name.find("::h") {
                // trailing hash
                if name[j + 3..].chars().all(|c| c.is_ascii_hexdigit()) {
                    name.truncate(j);
                }
            }
            name = name.trim_end_matches('>').to_string();
            if name.starts_with("cc6502::tests") {
                continue;
            }
            return Some(name);
        }
    }
    None
}

fn file_of(loc: &str) -> String {
    // keep the path from "src/" on (cc6502 files) or the crate dir name for dependencies
    let path = loc.rsplitn(2, ':').last().unwrap_or(loc);
    if let Some(i) = path.rfind("/src/") {
        // find crate dir name
        let before = &path[..i];
        let krate = before.rsplit('/').next().unwrap_or("");
        let krate = krate.trim_end_matches(|c: char| c.is_ascii_digit() || c == '.' || c == '-');
        let krate = if krate == "repo" || krate.is_empty() { "cc6502" } else { krate };
        format!("{}{}", krate, &path[i..])
    } else {
        path.to_string()
    }
}

/// Compile `src` (main file content). Include files must exist on disk under `opts.include_dirs`.
pub fn compile_str(src: &str, opts: &Opts) -> Outcome {
    compile_bytes(src.as_bytes(), opts)
}

pub fn compile_bytes(src: &[u8], opts: &Opts) -> Outcome {
    let argv = opts.argv();
    let args = match Args::try_parse_from(argv) {
        Ok(a) => a,
        Err(e) => return Outcome::Err(CcError::Configuration(format!("clap: {}", e))),
    };
    CFG.with(|c| {
        *c.borrow_mut() = BuildCfg {
            scheme: leak_scheme(&opts.scheme),
            run_optimizer: opts.run_optimizer,
            run_check_branches: opts.run_check_branches,
        }
    });
    CAPTURE.with(|c| *c.borrow_mut() = None);
    LAST_PANIC.with(|p| *p.borrow_mut() = None);
    let r = std::panic::catch_unwind(std::panic::AssertUnwindSafe(|| {
        let mut out: Vec<u8> = Vec::new();
        let r = compile(src, &mut out, &args, builder);
        (r, out)
    }));
    match r {
        Ok((Ok(()), out)) => {
            let mut cap = CAPTURE.with(|c| c.borrow_mut().take()).unwrap_or_default();
            let text = String::from_utf8_lossy(&out).to_string();
            // split per-function text
            let mut rest = text.as_str();
            while let Some(i) = rest.find(FUNC_MARK) {
                let after = &rest[i + FUNC_MARK.len()..];
                let nl = after.find('\n').unwrap_or(after.len());
                let name = &after[..nl];
                let body_start = (nl + 1).min(after.len());
                let body = &after[body_start..];
                let end = body.find(FUNC_END).unwrap_or(body.len());
                if let Some(f) = cap.funcs.iter_mut().find(|f| f.name == name) {
                    f.asm = body[..end].to_string();
                }
                rest = &body[end..];
            }
            cap.output = text;
            Outcome::Ok(Box::new(cap))
        }
        Ok((Err(e), _)) => Outcome::Err(conv_err(e)),
        Err(_) => {
            let (message, location) =
                LAST_PANIC.with(|p| p.borrow_mut().take()).unwrap_or(("<unknown>".into(), "".into()));
            let sig = match location.split_once('@') {
                Some((func, _)) => format!("{}|{}", func, normalise_msg(&message)),
                None => format!("{}|{}", file_of(&location), normalise_msg(&message)),
            };
            Outcome::Panic(PanicSig { message, location, sig })
        }
    }
}

/// Redirect the process's stdout/stderr to /dev/null (cc6502 prints warnings and pest errors
/// there) and return a writer on the real stdout.
pub fn silence_stdio() -> std::fs::File {
    use std::os::unix::io::FromRawFd;
    unsafe {
        let saved = libc::dup(1);
        let devnull = libc::open(b"/dev/null\0".as_ptr() as *const libc::c_char, libc::O_WRONLY);
        libc::dup2(devnull, 1);
        libc::dup2(devnull, 2);
        libc::close(devnull);
        std::fs::File::from_raw_fd(saved)
    }
}
