//! Helpers for the text-level checks: per-case temp directories for include files.
use crate::cc::Outcome;
use std::path::PathBuf;
use std::sync::atomic::{AtomicU64, Ordering};

static COUNTER: AtomicU64 = AtomicU64::new(0);

pub struct TempDir {
    p: PathBuf,
}

impl TempDir {
    pub fn new(tag: &str) -> TempDir {
        let base = std::env::var("VERIF_TMP").map(PathBuf::from).unwrap_or_else(|_| {
            let shm = PathBuf::from("/dev/shm");
            if shm.is_dir() {
                shm
            } else {
                std::env::temp_dir()
            }
        });
        let n = COUNTER.fetch_add(1, Ordering::Relaxed);
        let p = base.join(format!("vcheck-{}-{}-{}", tag, std::process::id(), n));
        let _ = std::fs::create_dir_all(&p);
        TempDir { p }
    }
    pub fn path(&self) -> String {
        self.p.to_string_lossy().to_string()
    }
    pub fn write(&self, name: &str, content: &str) {
        let _ = std::fs::write(self.p.join(name), content);
    }
    pub fn write_bytes(&self, name: &str, content: &[u8]) {
        let _ = std::fs::write(self.p.join(name), content);
    }
}

impl Drop for TempDir {
    fn drop(&mut self) {
        let _ = std::fs::remove_dir_all(&self.p);
    }
}

pub fn brief(o: &Outcome) -> String {
    match o {
        Outcome::Ok(_) => "Ok".to_string(),
        Outcome::Err(e) => format!("Err({:?})", e).chars().take(200).collect(),
        Outcome::Panic(p) => format!("Panic({} at {})", p.message, p.location).chars().take(200).collect(),
    }
}
