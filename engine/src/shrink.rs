//! AST-level reductions used by the proptest ValueTree (see pbt::Reducible).
use crate::ast::*;

pub fn reduce_expr(e: &Expr) -> Vec<Expr> {
    let mut out = vec![];
    let lv_red = |lv: &LValue| -> Vec<LValue> {
        match lv {
            LValue::Index(n, i) => reduce_expr(i).into_iter().map(|x| LValue::Index(n.clone(), Box::new(x))).collect(),
            _ => vec![],
        }
    };
    match e {
        Expr::Lit(v, f) => {
            if *v != 0 {
                out.push(Expr::Lit(0, LitFmt::Dec));
            }
            if *v != 1 && *v != 0 {
                out.push(Expr::Lit(1, LitFmt::Dec));
            }
            if v.abs() > 3 {
                out.push(Expr::Lit(v / 2, LitFmt::Dec));
            }
            if *f != LitFmt::Dec {
                out.push(Expr::Lit(*v, LitFmt::Dec));
            }
            return out;
        }
        Expr::Lv(lv) => {
            for l in lv_red(lv) {
                out.push(Expr::Lv(l));
            }
        }
        Expr::AddrOf(_) | Expr::SizeofVar(_) | Expr::SizeofType(_) => {}
        Expr::Un(op, a) => {
            out.push((**a).clone());
            for x in reduce_expr(a) {
                out.push(Expr::Un(*op, Box::new(x)));
            }
        }
        Expr::Bin(op, a, b) => {
            out.push((**a).clone());
            out.push((**b).clone());
            for x in reduce_expr(a) {
                out.push(Expr::Bin(*op, Box::new(x), b.clone()));
            }
            for x in reduce_expr(b) {
                out.push(Expr::Bin(*op, a.clone(), Box::new(x)));
            }
        }
        Expr::Assign(op, lv, r) => {
            if op.is_some() {
                out.push(Expr::Assign(None, lv.clone(), r.clone()));
            }
            for x in reduce_expr(r) {
                out.push(Expr::Assign(*op, lv.clone(), Box::new(x)));
            }
            for l in lv_red(lv) {
                out.push(Expr::Assign(*op, l, r.clone()));
            }
        }
        Expr::IncDec(i, p, lv) => {
            for l in lv_red(lv) {
                out.push(Expr::IncDec(*i, *p, l));
            }
        }
        Expr::Call(f, args) => {
            for (i, a) in args.iter().enumerate() {
                for x in reduce_expr(a) {
                    let mut n = args.clone();
                    n[i] = x;
                    out.push(Expr::Call(f.clone(), n));
                }
            }
        }
        Expr::Ternary(c, a, b) => {
            out.push((**a).clone());
            out.push((**b).clone());
            for x in reduce_expr(c) {
                out.push(Expr::Ternary(Box::new(x), a.clone(), b.clone()));
            }
            for x in reduce_expr(a) {
                out.push(Expr::Ternary(c.clone(), Box::new(x), b.clone()));
            }
            for x in reduce_expr(b) {
                out.push(Expr::Ternary(c.clone(), a.clone(), Box::new(x)));
            }
        }
        Expr::Comma(a, b) => {
            out.push((**b).clone());
            out.push((**a).clone());
            for x in reduce_expr(b) {
                out.push(Expr::Comma(a.clone(), Box::new(x)));
            }
        }
    }
    if !matches!(e, Expr::Lit(_, _)) {
        out.push(Expr::Lit(0, LitFmt::Dec));
        out.push(Expr::Lit(1, LitFmt::Dec));
    }
    out
}

fn as_list(s: &Stmt) -> Vec<Stmt> {
    match s {
        Stmt::Block(b) if !b.iter().any(|x| matches!(x, Stmt::Decl(_))) => b.clone(),
        other => vec![other.clone()],
    }
}

/// replacements of one statement by a list of statements
pub fn reduce_stmt(s: &Stmt) -> Vec<Vec<Stmt>> {
    let mut out: Vec<Vec<Stmt>> = vec![];
    let boxed = |v: Vec<Stmt>| -> Box<Stmt> {
        if v.len() == 1 {
            Box::new(v.into_iter().next().unwrap())
        } else {
            Box::new(Stmt::Block(v))
        }
    };
    match s {
        Stmt::Expr(e) => {
            for x in reduce_expr(e) {
                // an expression statement reduced to a bare literal is pointless
                if !matches!(x, Expr::Lit(_, _)) {
                    out.push(vec![Stmt::Expr(x)]);
                }
            }
        }
        Stmt::Decl(d) => {
            if let Some(i) = &d.init {
                for x in reduce_expr(i) {
                    let mut n = d.clone();
                    n.init = Some(x);
                    out.push(vec![Stmt::Decl(n)]);
                }
            }
        }
        Stmt::Block(b) => {
            if !b.iter().any(|x| matches!(x, Stmt::Decl(_))) {
                out.push(b.clone());
            }
            for r in reduce_stmts(b) {
                out.push(vec![Stmt::Block(r)]);
            }
        }
        Stmt::If(c, a, b) => {
            out.push(as_list(a));
            if let Some(b) = b {
                out.push(as_list(b));
                out.push(vec![Stmt::If(c.clone(), a.clone(), None)]);
            }
            for x in reduce_expr(c) {
                out.push(vec![Stmt::If(x, a.clone(), b.clone())]);
            }
            for r in reduce_stmt(a) {
                out.push(vec![Stmt::If(c.clone(), boxed(r), b.clone())]);
            }
            if let Some(bb) = b {
                for r in reduce_stmt(bb) {
                    out.push(vec![Stmt::If(c.clone(), a.clone(), Some(boxed(r)))]);
                }
            }
        }
        Stmt::While(c, b) => {
            out.push(as_list(b));
            for x in reduce_expr(c) {
                out.push(vec![Stmt::While(x, b.clone())]);
            }
            for r in reduce_stmt(b) {
                out.push(vec![Stmt::While(c.clone(), boxed(r))]);
            }
        }
        Stmt::DoWhile(b, c) => {
            out.push(as_list(b));
            for x in reduce_expr(c) {
                out.push(vec![Stmt::DoWhile(b.clone(), x)]);
            }
            for r in reduce_stmt(b) {
                out.push(vec![Stmt::DoWhile(boxed(r), c.clone())]);
            }
        }
        Stmt::For(i, c, u, b) => {
            out.push(as_list(b));
            if let Some(i) = i {
                let mut l = vec![Stmt::Expr(i.clone())];
                l.extend(as_list(b));
                out.push(l);
            }
            for r in reduce_stmt(b) {
                out.push(vec![Stmt::For(i.clone(), c.clone(), u.clone(), boxed(r))]);
            }
            if let Some(cc) = c {
                for x in reduce_expr(cc) {
                    out.push(vec![Stmt::For(i.clone(), Some(x), u.clone(), b.clone())]);
                }
            }
        }
        Stmt::Switch(e, cases, d) => {
            for c in cases {
                let l: Vec<Stmt> = c.body.iter().filter(|x| !matches!(x, Stmt::Break)).cloned().collect();
                out.push(l);
            }
            if let Some(d) = d {
                out.push(d.clone());
                out.push(vec![Stmt::Switch(e.clone(), cases.clone(), None)]);
            }
            for i in 0..cases.len() {
                if cases.len() > 1 {
                    let mut n = cases.clone();
                    n.remove(i);
                    out.push(vec![Stmt::Switch(e.clone(), n, d.clone())]);
                }
                for r in reduce_stmts(&cases[i].body) {
                    let mut n = cases.clone();
                    n[i].body = r;
                    out.push(vec![Stmt::Switch(e.clone(), n, d.clone())]);
                }
                if cases[i].labels.len() > 1 {
                    for j in 0..cases[i].labels.len() {
                        let mut n = cases.clone();
                        n[i].labels.remove(j);
                        out.push(vec![Stmt::Switch(e.clone(), n, d.clone())]);
                    }
                }
            }
            if let Some(dd) = d {
                for r in reduce_stmts(dd) {
                    out.push(vec![Stmt::Switch(e.clone(), cases.clone(), Some(r))]);
                }
            }
        }
        Stmt::Label(l, s) => {
            out.push(vec![(**s).clone()]);
            for r in reduce_stmt(s) {
                out.push(vec![Stmt::Label(l.clone(), boxed(r))]);
            }
        }
        Stmt::Return(Some(e)) => {
            for x in reduce_expr(e) {
                out.push(vec![Stmt::Return(Some(x))]);
            }
        }
        Stmt::Load(e) => {
            for x in reduce_expr(e) {
                out.push(vec![Stmt::Load(x)]);
            }
        }
        Stmt::Csleep(n) => {
            if *n > 2 {
                out.push(vec![Stmt::Csleep(2)]);
                out.push(vec![Stmt::Csleep(n - 1)]);
            }
        }
        Stmt::Asm(t, Some(_)) => out.push(vec![Stmt::Asm(t.clone(), None)]),
        _ => {}
    }
    out
}

pub fn reduce_stmts(v: &[Stmt]) -> Vec<Vec<Stmt>> {
    let mut out = vec![];
    // remove chunks: halves first, then single statements
    if v.len() >= 4 {
        let h = v.len() / 2;
        out.push(v[h..].to_vec());
        out.push(v[..h].to_vec());
    }
    for i in 0..v.len() {
        let mut n = v.to_vec();
        n.remove(i);
        out.push(n);
    }
    for i in 0..v.len() {
        for r in reduce_stmt(&v[i]) {
            let mut n = v.to_vec();
            n.splice(i..=i, r);
            out.push(n);
        }
    }
    out
}

pub fn reduce_program(p: &Program) -> Vec<Program> {
    let mut out = vec![];
    // drop helper functions
    for i in 0..p.funcs.len() {
        if p.funcs[i].name != "main" {
            let mut n = p.clone();
            n.funcs.remove(i);
            out.push(n);
        }
    }
    // empty / shrink bodies
    for i in 0..p.funcs.len() {
        for r in reduce_stmts(&p.funcs[i].body) {
            let mut n = p.clone();
            n.funcs[i].body = r;
            out.push(n);
        }
        if p.funcs[i].inline {
            let mut n = p.clone();
            n.funcs[i].inline = false;
            out.push(n);
        }
    }
    // drop globals
    for i in 0..p.globals.len() {
        let mut n = p.clone();
        n.globals.remove(i);
        out.push(n);
    }
    // plain memory qualifiers
    for i in 0..p.globals.len() {
        if p.globals[i].mem != MemQual::Default {
            let mut n = p.clone();
            n.globals[i].mem = MemQual::Default;
            out.push(n);
        }
    }
    out
}
