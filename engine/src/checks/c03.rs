//! C03 — branches reach; long-branch repair preserves control flow.
//!
//! API level: random function skeletons are built through AssemblyCode's public API, repaired
//! by check_branches(), written out, assembled by the independent assembler (every displacement
//! must fit) and executed on the emulator for all 8 (N,Z,C) start states; the sequence of
//! payload stores is compared with an abstract interpreter of the ORIGINAL line list.
//! Program level: generated programs with long bodies must assemble without range errors.
use crate::asm6502::{self, AsmErrorKind, Source};
use crate::emu6502::{AccessKind, Cpu, Stop, HALT};
use crate::gen::{Excl, GenCfg};
use crate::pbt::{self, Reducible, Stats, G};
use crate::report::{self, RunCtx, Summary, Violation};
use crate::sem::{self, SemCase};
use cc6502::assemble::{AsmInstruction, AsmMnemonic, AssemblyCode};
use serde::{Deserialize, Serialize};
use serde_json::json;
use std::collections::HashMap;

#[derive(Debug, Clone, PartialEq, Serialize, Deserialize)]
pub enum Line {
    /// payload: STA <unique address>; wide = absolute (3 bytes) else zero page (2 bytes)
    Store { id: u16, wide: bool },
    /// inline assembler payload (STA too), declared size = real size unless `hint` is None (then the
    /// real size is 3 = the default)
    InlineStore { id: u16 },
    InlineNop,
    Nop,
    Lda(u8),
    Cmp(u8),
    Label(String),
    /// kind: 0 BEQ 1 BNE 2 BCC 3 BCS 4 BMI 5 BPL
    Branch { kind: u8, target: String },
    /// BCC+BEQ (signed=false) or BMI+BEQ (signed=true) to the same label
    Pair { signed: bool, target: String },
    Jmp(String),
}

#[derive(Debug, Clone, Serialize, Deserialize)]
pub struct Skeleton {
    pub lines: Vec<Line>,
}

impl Reducible for Skeleton {
    fn reductions(&self) -> Vec<Skeleton> {
        let mut out = vec![];
        let n = self.lines.len();
        // remove runs of filler
        for chunk in [64usize, 16, 4, 1] {
            let mut i = 0;
            while i < n {
                let end = (i + chunk).min(n);
                if self.lines[i..end].iter().all(|l| !matches!(l, Line::Label(_))) {
                    let mut v = self.lines.clone();
                    v.drain(i..end);
                    if Skeleton::valid(&v) {
                        out.push(Skeleton { lines: v });
                    }
                }
                i += chunk;
            }
            if out.len() > 400 {
                break;
            }
        }
        out
    }
}

impl Skeleton {
    fn valid(v: &[Line]) -> bool {
        // every branch target must exist exactly once
        let mut labels = std::collections::HashSet::new();
        for l in v {
            if let Line::Label(n) = l {
                if !labels.insert(n.clone()) {
                    return false;
                }
            }
        }
        v.iter().all(|l| match l {
            Line::Branch { target, .. } | Line::Pair { target, .. } | Line::Jmp(target) => labels.contains(target),
            _ => true,
        })
    }
}

const ZP_BASE: u16 = 0x10;
const ABS_BASE: u16 = 0x0300;

fn branch_mn(kind: u8) -> AsmMnemonic {
    match kind {
        0 => AsmMnemonic::BEQ,
        1 => AsmMnemonic::BNE,
        2 => AsmMnemonic::BCC,
        3 => AsmMnemonic::BCS,
        4 => AsmMnemonic::BMI,
        _ => AsmMnemonic::BPL,
    }
}

fn store_addr(id: u16, wide: bool) -> u16 {
    if wide {
        ABS_BASE + id
    } else {
        ZP_BASE + (id % 0xC0)
    }
}

pub fn build(sk: &Skeleton) -> AssemblyCode {
    let mut c = AssemblyCode::new();
    let ins = |m: AsmMnemonic, op: String, n: u32| AsmInstruction {
        mnemonic: m,
        dasm_operand: op,
        cycles: 2,
        cycles_alt: None,
        nb_bytes: n,
        protected: false,
    };
    for l in &sk.lines {
        match l {
            Line::Store { id, wide } => {
                let a = store_addr(*id, *wide);
                let op = if *wide { format!("${:04x}", a) } else { format!("${:02x}", a) };
                c.append_asm(ins(AsmMnemonic::STA, op, if *wide { 3 } else { 2 }));
            }
            Line::InlineStore { id } => c.append_inline(format!("sta ${:04x}", ABS_BASE + id), None),
            Line::InlineNop => c.append_inline("nop".to_string(), Some(1)),
            Line::Nop => c.append_asm(ins(AsmMnemonic::NOP, String::new(), 1)),
            Line::Lda(v) => c.append_asm(ins(AsmMnemonic::LDA, format!("#{}", v), 2)),
            Line::Cmp(v) => c.append_asm(ins(AsmMnemonic::CMP, format!("#{}", v), 2)),
            Line::Label(n) => c.append_label(n.clone()),
            Line::Branch { kind, target } => c.append_asm(ins(branch_mn(*kind), target.clone(), 2)),
            Line::Pair { signed, target } => {
                c.append_asm(ins(if *signed { AsmMnemonic::BMI } else { AsmMnemonic::BCC }, target.clone(), 2));
                c.append_asm(ins(AsmMnemonic::BEQ, target.clone(), 2));
            }
            Line::Jmp(t) => c.append_asm(ins(AsmMnemonic::JMP, t.clone(), 3)),
        }
    }
    c
}

#[derive(Debug, Clone, Copy, PartialEq)]
struct Abs {
    a: u8,
    n: bool,
    z: bool,
    c: bool,
}

/// Abstract interpreter of the original line list: returns the payload events (store
/// addresses) and whether execution fell off the end within the step budget.
fn interpret(sk: &Skeleton, start: Abs, max_steps: usize, max_events: usize) -> (Vec<u16>, bool, usize) {
    let mut labels = HashMap::new();
    for (i, l) in sk.lines.iter().enumerate() {
        if let Line::Label(n) = l {
            labels.insert(n.clone(), i);
        }
    }
    let mut s = start;
    let mut pc = 0usize;
    let mut ev = vec![];
    let mut steps = 0;
    while pc < sk.lines.len() {
        steps += 1;
        if steps > max_steps || ev.len() >= max_events {
            return (ev, false, steps);
        }
        match &sk.lines[pc] {
            Line::Store { id, wide } => ev.push(store_addr(*id, *wide)),
            Line::InlineStore { id } => ev.push(ABS_BASE + id),
            Line::InlineNop | Line::Nop | Line::Label(_) => {}
            Line::Lda(v) => {
                s.a = *v;
                s.n = v & 0x80 != 0;
                s.z = *v == 0;
            }
            Line::Cmp(v) => {
                let d = s.a.wrapping_sub(*v);
                s.c = s.a >= *v;
                s.n = d & 0x80 != 0;
                s.z = d == 0;
            }
            Line::Branch { kind, target } => {
                let take = match kind {
                    0 => s.z,
                    1 => !s.z,
                    2 => !s.c,
                    3 => s.c,
                    4 => s.n,
                    _ => !s.n,
                };
                if take {
                    pc = labels[target];
                    continue;
                }
            }
            Line::Pair { signed, target } => {
                let take = (if *signed { s.n } else { !s.c }) || s.z;
                if take {
                    pc = labels[target];
                    continue;
                }
            }
            Line::Jmp(t) => {
                pc = labels[t];
                continue;
            }
        }
        pc += 1;
    }
    (ev, true, steps)
}

fn filler(g: &mut G, out: &mut Vec<Line>, bytes: usize, next_id: &mut u16) {
    let mut left = bytes as i64;
    while left > 0 {
        let l = match g.below(12) {
            0 if left >= 1 => Line::Nop,
            1 if left >= 1 => Line::InlineNop,
            2 | 3 if left >= 2 => Line::Lda(g.byte_biased()),
            4 if left >= 2 => Line::Cmp(g.byte_biased()),
            5 if left >= 3 => {
                *next_id += 1;
                Line::InlineStore { id: *next_id }
            }
            6..=8 if left >= 3 => {
                *next_id += 1;
                Line::Store { id: *next_id, wide: true }
            }
            _ if left >= 2 => {
                *next_id += 1;
                Line::Store { id: *next_id, wide: false }
            }
            _ => Line::Nop,
        };
        left -= match &l {
            Line::Nop | Line::InlineNop => 1,
            Line::Lda(_) | Line::Cmp(_) => 2,
            Line::InlineStore { .. } => 3,
            Line::Store { wide, .. } => {
                if *wide {
                    3
                } else {
                    2
                }
            }
            _ => 0,
        };
        out.push(l);
    }
}

pub fn gen_skeleton(g: &mut G) -> Skeleton {
    let nlabels = 1 + g.below(6);
    let nblocks = nlabels + 1 + g.below(5);
    // place each label in front of a distinct block
    let mut label_at: Vec<Option<String>> = vec![None; nblocks];
    let mut placed = 0;
    while placed < nlabels {
        let p = g.below(nblocks);
        if label_at[p].is_none() {
            label_at[p] = Some(format!(".l{}", placed));
            placed += 1;
        }
    }
    let mut lines = vec![];
    let mut id = 0u16;
    for b in 0..nblocks {
        if let Some(l) = &label_at[b] {
            lines.push(Line::Label(l.clone()));
        }
        let dist = match g.below(10) {
            0..=3 => g.below(21),
            4..=7 => 112 + g.below(28),
            8 => 250 + g.below(20),
            _ => 250 + g.below(151),
        };
        filler(g, &mut lines, dist, &mut id);
        // flag-setting prelude, then 1-2 branches
        let nb = 1 + g.below(2);
        for _ in 0..nb {
            if g.chance(1, 2) {
                lines.push(Line::Lda(g.byte_biased()));
                lines.push(Line::Cmp(g.byte_biased()));
            }
            let target = format!(".l{}", g.below(nlabels));
            match g.below(10) {
                0 | 1 => lines.push(Line::Pair { signed: g.chance(1, 2), target }),
                2 if g.chance(1, 3) => lines.push(Line::Jmp(target)),
                _ => lines.push(Line::Branch { kind: g.below(6) as u8, target }),
            }
            let small = g.below(4);
            filler(g, &mut lines, small, &mut id);
        }
    }
    let tail = g.below(12);
    filler(g, &mut lines, tail, &mut id);
    Skeleton { lines }
}

pub fn check_skeleton(sk: &Skeleton, st: &mut Stats) -> Result<(), String> {
    st.count("skeletons");
    let mut code = build(sk);
    let before = code.size_bytes();
    let fixes = code.check_branches();
    let mut text: Vec<u8> = vec![];
    code.write(&mut text, false).map_err(|e| format!("C03-io: {}", e))?;
    let text = String::from_utf8_lossy(&text).to_string();
    let g = HashMap::new();
    let asm = match asm6502::assemble(&[Source { name: "f", text: &text, epilogue: "" }], 0xC000, &g) {
        Ok(a) => a,
        Err(e) => {
            return Err(match e.kind {
                AsmErrorKind::BranchOutOfRange(_, d) => {
                    format!("C03-range: after check_branches() a branch is still out of range (displacement {}): {}", d, e)
                }
                AsmErrorKind::DuplicateLabel(_) | AsmErrorKind::UndefinedSymbol(_) => {
                    format!("C03-labels: repaired code does not assemble: {}", e)
                }
                AsmErrorKind::ImageTooLarge => return Ok(()),
                _ => format!("C03-harness: skeleton does not assemble: {}", e),
            })
        }
    };
    // reported size after repair must match the real size too (the repair relies on it)
    let unit = &asm.units[0];
    let real = (unit.end - unit.start) as u32;
    if code.size_bytes() != real {
        return Err(format!("C03-size: size_bytes() after repair = {} but the code assembles to {} bytes", code.size_bytes(), real));
    }
    let _ = before;
    if fixes > 0 {
        st.count("with_repairs");
        st.add("repairs", fixes as u64);
    }
    // near-limit branches
    let mut near = false;
    for i in asm.instrs() {
        if i.mode == asm6502::Mode::Rel {
            let disp = i.value - (i.addr as i64 + 2);
            if disp >= 124 || disp <= -125 {
                near = true;
            }
        }
    }
    if near {
        st.count("branch_within_3_bytes_of_limit");
    }
    // execute for all 8 flag states
    let mut cpu = Cpu::new();
    for flags in 0..8u8 {
        let start = Abs { a: 0x40, n: flags & 4 != 0, z: flags & 2 != 0, c: flags & 1 != 0 };
        let (exp, halted, steps) = interpret(sk, start, 3000, 300);
        cpu.mem.fill(0);
        for (a, b) in &asm.bytes {
            cpu.mem[*a as usize] = *b;
        }
        cpu.mem[unit.end as usize] = HALT;
        cpu.a = start.a;
        cpu.x = 0;
        cpu.y = 0;
        cpu.sp = 0xff;
        cpu.set_flags((start.n as u8) << 7 | (start.z as u8) << 1 | start.c as u8);
        cpu.pc = unit.start;
        cpu.cycles = 0;
        cpu.instructions = 0;
        cpu.faults.clear();
        cpu.trace.clear();
        cpu.trace_limit = 400;
        cpu.watch = vec![(ZP_BASE, ZP_BASE + 0xC0), (ABS_BASE, ABS_BASE + 0x0BFF)];
        // instruction budget proportional to the abstract run
        let budget = 3 * steps as u64 + 100;
        let mut stop = Stop::CycleLimit;
        while cpu.instructions < budget {
            if let Some(s) = cpu.step() {
                stop = s;
                break;
            }
            if cpu.trace.len() >= 330 {
                break;
            }
        }
        let got: Vec<u16> = cpu.trace.iter().filter(|a| a.kind == AccessKind::Write).map(|a| a.addr).collect();
        let k = exp.len().min(300);
        if got.len() < k || got[..k] != exp[..k] {
            let first = (0..k).find(|i| got.get(*i) != exp.get(*i)).unwrap_or(0);
            return Err(format!(
                "C03-path: flags N={} Z={} C={}: payload store #{} differs (original {:?}, repaired {:?}); {} repairs",
                start.n as u8,
                start.z as u8,
                start.c as u8,
                first,
                exp.get(first).map(|a| format!("${:04x}", a)),
                got.get(first).map(|a| format!("${:04x}", a)),
                fixes
            ));
        }
        if std::env::var("C03_DEBUG").is_ok() {
            eprintln!("flags {} exp {} got {} halted {} steps {} stop {:?} instr {}", flags, exp.len(), got.len(), halted, steps, stop, cpu.instructions);
        }
        if halted {
            match stop {
                Stop::Halt => {
                    if got.len() != exp.len() {
                        return Err(format!(
                            "C03-path: flags N={} Z={} C={}: repaired code performs {} payload stores, original {}",
                            start.n as u8, start.z as u8, start.c as u8, got.len(), exp.len()
                        ));
                    }
                }
                other => {
                    return Err(format!(
                        "C03-path: flags N={} Z={} C={}: original falls off the end after {} steps, repaired code: {:?}",
                        start.n as u8, start.z as u8, start.c as u8, steps, other
                    ))
                }
            }
        }
    }
    if fixes > 0 || near {
        st.nontrivial(pbt::hash_str(&text));
        st.sample(2, || {
            let mut brief: Vec<String> = vec![];
            let mut run = 0;
            for l in &sk.lines {
                match l {
                    Line::Label(_) | Line::Branch { .. } | Line::Pair { .. } | Line::Jmp(_) => {
                        if run > 0 {
                            brief.push(format!("<{} filler lines>", run));
                            run = 0;
                        }
                        brief.push(format!("{:?}", l));
                    }
                    _ => run += 1,
                }
            }
            if run > 0 {
                brief.push(format!("<{} filler lines>", run));
            }
            json!({"skeleton": brief, "repairs": fixes, "size_after": real})
        });
    }
    Ok(())
}

pub fn cfg() -> GenCfg {
    GenCfg { long_bodies: true, max_stmts: 8, ..GenCfg::default() }
}

fn check_program(case: &SemCase, st: &mut Stats, ex: &Excl) -> Result<(), String> {
    st.count("long_body_programs");
    if let Some(r) = crate::excl::find_excluded(&case.prog, ex) {
        st.count(&format!("excluded:{}", r));
        return Ok(());
    }
    let src = case.source();
    match sem::build(&src, &case.opts(), case.layout_shuffle) {
        sem::Built::AsmFail(e) => {
            if let AsmErrorKind::BranchOutOfRange(_, d) = e.kind {
                return Err(format!("C03-range: emitted program has a branch out of range (displacement {}): {}", d, e));
            }
            st.count("other_asm_error(routed to C13)");
            Ok(())
        }
        sem::Built::Ok(cap, _) => {
            st.count("long_body_accepted");
            if cap.funcs.iter().any(|f| f.branch_fixes > 0) {
                st.count("long_body_with_repairs");
                st.nontrivial(pbt::hash_str(&src));
            }
            Ok(())
        }
        sem::Built::Rejected(e) => {
            st.count(&format!("long_body_rejected:{}", e.msg().chars().take(40).collect::<String>()));
            Ok(())
        }
        _ => Ok(()),
    }
}

pub fn run(ctx: &mut RunCtx) -> i32 {
    let cases = ctx.cases(30_000, 800_000);
    let pcases = ctx.cases(3_000, 60_000);
    let (excl, known_seen) = super::activate_exclusions(ctx, "C03");
    let (mut stats, failures, mut aborted) = pbt::run_sharded(
        ctx.seed,
        "C03",
        ctx.shards,
        cases,
        3000,
        |_| pbt::strategy(gen_skeleton),
        |sk: &Skeleton, st: &mut Stats| check_skeleton(sk, st),
    );
    let mut violations = super::take_regressions();
    for f in failures {
        let class = f.reason.split(':').next().unwrap_or("").to_string();
        violations.push(Violation {
            class,
            detail: f.reason.clone(),
            replay: json!({"property": "C03", "kind": "c03-skeleton", "reason": f.reason, "skeleton": f.minimal}),
        });
    }
    // program level
    let mut cfgp = cfg();
    cfgp.excl = excl.clone();
    let (pstats, pfailures, paborted) = pbt::run_sharded(
        ctx.seed,
        "C03-programs",
        ctx.shards,
        pcases,
        1500,
        |_| {
            let cfg = cfgp.clone();
            pbt::strategy(move |g| sem::gen_case(g, &cfg, 0, &[0, 1], false))
        },
        |case: &SemCase, st: &mut Stats| check_program(case, st, &excl),
    );
    stats.merge(&pstats);
    aborted.extend(paborted);
    for f in pfailures {
        let class = f.reason.split(':').next().unwrap_or("").to_string();
        violations.push(Violation {
            class,
            detail: f.reason.clone(),
            replay: json!({"property": "C03", "kind": "c03-program", "reason": f.reason, "source": f.minimal.source(),
                           "options": f.minimal.opts().describe(), "case": f.minimal}),
        });
    }
    let s = Summary {
        stats,
        rule: "API level: random function skeletons (fillers with truthful sizes, inline lines with and without size hints, 1-6 \
               labels, branches of all six kinds plus the BCC+BEQ / BMI+BEQ pairs, forward and backward, distances around 0, \
               127 and 250-400 bytes) through AssemblyCode::check_branches(); every displacement must fit and, for all 8 \
               (N,Z,C) start states, the repaired code's payload-store sequence must equal that of an abstract interpreter \
               of the original lines. Program level: generated long-body programs must assemble without range error. \
               Non-trivial = at least one repair happened or a branch lies within 3 bytes of a limit; distinct by hash of the text"
            .into(),
        assumptions: vec!["asm6502/emu6502 correct".into(), "fillers declare their true sizes (check_branches' documented precondition)".into()],
        extra: json!({}),
        violations,
        known_seen,
        inconclusive: aborted,
    };
    report::finish(ctx, s)
}

pub fn replay_case(v: &serde_json::Value) -> Option<(bool, String)> {
    let mut st = Stats::default();
    if v["kind"] == "c03-skeleton" {
        let sk: Skeleton = serde_json::from_value(v["skeleton"].clone()).ok()?;
        return match check_skeleton(&sk, &mut st) {
            Ok(()) => Some((false, format!("{:?}", st.counters))),
            Err(r) => Some((true, r)),
        };
    }
    let case: SemCase = serde_json::from_value(v["case"].clone()).ok()?;
    match check_program(&case, &mut st, &Excl::default()) {
        Ok(()) => Some((false, format!("{:?}", st.counters))),
        Err(r) => Some((true, r)),
    }
}
