//! C15 — equivalent source forms behave identically (metamorphic rewrites, co-execution).
use crate::ast::*;
use crate::gen::{Excl, GenCfg};
use crate::pbt::{self, Reducible, Stats};
use crate::report::{self, RunCtx, Summary, Violation};
use crate::sem::{self, SemCase, Side};
use serde::{Deserialize, Serialize};
use serde_json::json;

#[derive(Debug, Clone, Copy, PartialEq, Eq, Serialize, Deserialize, PartialOrd, Ord)]
pub enum Rw {
    Commute,
    OpAssign,
    IncToAdd,
    IfNegate,
    CmpSwap,
    ForToWhile,
    SwitchToIf,
    IndexConst,
    InlineCall,
}

pub const ALL: [Rw; 9] = [
    Rw::Commute,
    Rw::OpAssign,
    Rw::IncToAdd,
    Rw::IfNegate,
    Rw::CmpSwap,
    Rw::ForToWhile,
    Rw::SwitchToIf,
    Rw::IndexConst,
    Rw::InlineCall,
];

#[derive(Debug, Clone, Serialize, Deserialize)]
pub struct Case {
    pub sem: SemCase,
    pub rw: Rw,
    /// index of the site among the applicable ones (taken modulo their number)
    pub site: u32,
}

impl Reducible for Case {
    fn reductions(&self) -> Vec<Case> {
        // shrinking the program moves the sites: every candidate is re-validated by the oracle
        self.sem.reductions().into_iter().map(|s| Case { sem: s, ..self.clone() }).collect()
    }
}

fn pure(e: &Expr) -> bool {
    let mut ok = true;
    crate::excl::walk(e, &mut |x| {
        if matches!(x, Expr::Assign(..) | Expr::IncDec(..) | Expr::Call(..) | Expr::Comma(..)) {
            ok = false;
        }
    });
    ok
}

fn lv_pure(lv: &LValue) -> bool {
    match lv {
        LValue::Index(_, i) => pure(i),
        _ => true,
    }
}

/// Walks every statement list / expression of the program; `f` may rewrite a site and returns
/// true when it did (the walk then stops). `k` counts applicable sites.
struct Walker<'a> {
    rw: Rw,
    target: Option<u32>,
    count: u32,
    done: bool,
    prog_funcs: &'a [Func],
    /// names declared (locals, parameters) anywhere in the function being walked
    cur_locals: Vec<String>,
}

impl<'a> Walker<'a> {
    fn hit(&mut self) -> bool {
        let me = self.count;
        self.count += 1;
        if self.target == Some(me) && !self.done {
            self.done = true;
            true
        } else {
            false
        }
    }

    fn expr(&mut self, e: &mut Expr) {
        if self.done {
            return;
        }
        // children first
        match e {
            Expr::Lv(LValue::Index(_, i)) => self.expr(i),
            Expr::Un(_, a) => self.expr(a),
            Expr::Bin(_, a, b) | Expr::Comma(a, b) => {
                self.expr(a);
                self.expr(b);
            }
            Expr::Assign(_, lv, r) => {
                if let LValue::Index(_, i) = lv {
                    self.expr(i);
                }
                self.expr(r);
            }
            Expr::IncDec(_, _, LValue::Index(_, i)) => self.expr(i),
            Expr::Call(_, args) => args.iter_mut().for_each(|a| self.expr(a)),
            Expr::Ternary(c, a, b) => {
                self.expr(c);
                self.expr(a);
                self.expr(b);
            }
            _ => {}
        }
        if self.done {
            return;
        }
        match (self.rw, &*e) {
            (Rw::Commute, Expr::Bin(op, a, b)) if matches!(op, BinOp::Add | BinOp::And | BinOp::Or | BinOp::Xor) && pure(a) && pure(b) => {
                if self.hit() {
                    if let Expr::Bin(op, a, b) = e.clone() {
                        *e = Expr::Bin(op, b, a);
                    }
                }
            }
            (Rw::CmpSwap, Expr::Bin(op, a, b)) if op.is_rel() && pure(a) && pure(b) => {
                if self.hit() {
                    if let Expr::Bin(op, a, b) = e.clone() {
                        let o2 = match op {
                            BinOp::Lt => BinOp::Gt,
                            BinOp::Gt => BinOp::Lt,
                            BinOp::Le => BinOp::Ge,
                            _ => BinOp::Le,
                        };
                        *e = Expr::Bin(o2, b, a);
                    }
                }
            }
            _ => {}
        }
    }

    fn stmt(&mut self, s: &mut Stmt) {
        if self.done {
            return;
        }
        match s {
            Stmt::Expr(e) => {
                self.expr(e);
                if self.done {
                    return;
                }
                match (self.rw, &*e) {
                    (Rw::OpAssign, Expr::Assign(Some(op), lv, r))
                        if !matches!(op, BinOp::Shl | BinOp::Shr) && lv_pure(lv) && pure(r) =>
                    {
                        if self.hit() {
                            let (op, lv, r) = (*op, lv.clone(), r.clone());
                            *e = Expr::Assign(None, lv.clone(), Box::new(Expr::Bin(op, Box::new(Expr::Lv(lv)), r)));
                        }
                    }
                    (Rw::IncToAdd, Expr::IncDec(inc, _, lv)) if lv_pure(lv) => {
                        if self.hit() {
                            let (inc, lv) = (*inc, lv.clone());
                            *e = Expr::Assign(Some(if inc { BinOp::Add } else { BinOp::Sub }), lv, Box::new(Expr::lit(1)));
                        }
                    }
                    _ => {}
                }
            }
            Stmt::Decl(d) => {
                if let Some(e) = &mut d.init {
                    self.expr(e)
                }
            }
            Stmt::Block(b) => self.list(b),
            Stmt::If(c, a, b) => {
                self.expr(c);
                self.stmt(a);
                if let Some(b) = b {
                    self.stmt(b);
                }
                if self.done {
                    return;
                }
                if self.rw == Rw::IfNegate && b.is_some() && pure(c) {
                    if self.hit() {
                        if let Stmt::If(c, a, Some(b)) = s.clone() {
                            *s = Stmt::If(Expr::Un(UnOp::LNot, Box::new(c)), b, Some(a));
                        }
                    }
                }
            }
            Stmt::While(c, b) | Stmt::DoWhile(b, c) => {
                self.expr(c);
                self.stmt(b);
            }
            Stmt::For(i, c, u, b) => {
                for e in [i, c, u].into_iter().flatten() {
                    self.expr(e);
                }
                self.stmt(b);
            }
            Stmt::Switch(e, cs, d) => {
                self.expr(e);
                for c in cs.iter_mut() {
                    self.list(&mut c.body);
                }
                if let Some(d) = d {
                    self.list(d);
                }
            }
            Stmt::Label(_, x) => self.stmt(x),
            Stmt::Return(Some(e)) | Stmt::Load(e) => self.expr(e),
            _ => {}
        }
    }

    fn list(&mut self, v: &mut Vec<Stmt>) {
        let mut i = 0;
        while i < v.len() {
            if self.done {
                return;
            }
            self.stmt(&mut v[i]);
            if self.done {
                return;
            }
            // list-level rewrites
            match self.rw {
                Rw::ForToWhile => {
                    if let Stmt::For(Some(init), Some(c), Some(u), body) = &v[i] {
                        if !contains_continue(body) {
                            if self.hit() {
                                let (init, c, u, body) = (init.clone(), c.clone(), u.clone(), body.clone());
                                let mut b = match *body {
                                    Stmt::Block(b) => b,
                                    s => vec![s],
                                };
                                // a declaration in the body keeps its own block
                                if b.iter().any(|s| matches!(s, Stmt::Decl(_))) {
                                    b = vec![Stmt::Block(b)];
                                }
                                b.push(Stmt::Expr(u));
                                v.splice(i..=i, vec![Stmt::Expr(init), Stmt::While(c, Box::new(Stmt::Block(b)))]);
                                return;
                            }
                        }
                    }
                }
                Rw::SwitchToIf => {
                    if let Stmt::Switch(Expr::Lv(LValue::Var(x)), cases, default) = &v[i] {
                        let simple = cases.iter().all(|c| {
                            matches!(c.body.last(), Some(Stmt::Break)) && !c.body[..c.body.len() - 1].iter().any(contains_break)
                        }) && default.as_ref().map(|d| !d.iter().any(contains_break)).unwrap_or(true)
                            && !cases.iter().any(|c| c.body.iter().any(|s| mentions_write(s, x)) && false);
                        if simple && !cases.is_empty() {
                            if self.hit() {
                                let x = x.clone();
                                let mut chain: Option<Stmt> = default.clone().map(Stmt::Block);
                                for c in cases.iter().rev() {
                                    let mut cond: Option<Expr> = None;
                                    for l in &c.labels {
                                        let t = Expr::bin(BinOp::Eq, Expr::var(&x), Expr::lit(*l));
                                        cond = Some(match cond {
                                            None => t,
                                            Some(p) => Expr::bin(BinOp::LOr, p, t),
                                        });
                                    }
                                    let body: Vec<Stmt> = c.body[..c.body.len() - 1].to_vec();
                                    chain = Some(Stmt::If(cond.unwrap(), Box::new(Stmt::Block(body)), chain.map(Box::new)));
                                }
                                v[i] = chain.unwrap();
                                return;
                            }
                        }
                    }
                }
                Rw::IndexConst => {
                    // `X = k; S; T` where S, T index by X: use the constant. S and T are expression
                    // statements or the condition of an `if`; the scan stops at the first statement
                    // that is neither, or that writes the register.
                    if i + 1 < v.len() {
                        if let Stmt::Expr(Expr::Assign(None, LValue::Var(r), k)) = &v[i] {
                            if (r == "X" || r == "Y") && matches!(**k, Expr::Lit(_, _)) {
                                let uses = |e: &Expr| -> bool {
                                    let mut has = false;
                                    crate::excl::walk(e, &mut |x| {
                                        if let Expr::Lv(LValue::Index(_, idx)) | Expr::Assign(_, LValue::Index(_, idx), _) | Expr::IncDec(_, _, LValue::Index(_, idx)) = x {
                                            if matches!(&**idx, Expr::Lv(LValue::Var(q)) if q == r) {
                                                has = true;
                                            }
                                        }
                                    });
                                    has
                                };
                                let writes = |e: &Expr| -> bool {
                                    let mut w = false;
                                    crate::excl::walk(e, &mut |x| match x {
                                        Expr::Assign(_, LValue::Var(q), _) | Expr::IncDec(_, _, LValue::Var(q)) if q == r => w = true,
                                        Expr::Call(_, _) => w = true,
                                        _ => {}
                                    });
                                    w
                                };
                                let mut targets = vec![];
                                for j in i + 1..(i + 3).min(v.len()) {
                                    let e = match &v[j] {
                                        Stmt::Expr(e) => e,
                                        Stmt::If(c, _, _) => c,
                                        _ => break,
                                    };
                                    if writes(e) {
                                        break;
                                    }
                                    if uses(e) {
                                        targets.push(j);
                                    }
                                    if matches!(&v[j], Stmt::If(..)) {
                                        break;
                                    }
                                }
                                if !targets.is_empty() && self.hit() {
                                    let r = r.clone();
                                    let k = (**k).clone();
                                    for j in targets {
                                        match &mut v[j] {
                                            Stmt::Expr(e) => replace_index(e, &r, &k),
                                            Stmt::If(c, _, _) => replace_index(c, &r, &k),
                                            _ => {}
                                        }
                                    }
                                    return;
                                }
                            }
                        }
                    }
                }
                Rw::InlineCall => {
                    if let Stmt::Expr(Expr::Call(f, args)) = &v[i] {
                        if !args.is_empty() {
                            // a void helper with scalar parameters: the call is a block that declares the
                            // parameters as locals initialised with the arguments, followed by the body
                            if let Some(callee) = self.prog_funcs.iter().find(|h| &h.name == f) {
                                let captured = self.cur_locals.iter().any(|n| callee.body.iter().any(|s| stmt_mentions(s, n)));
                                let ok = callee.ret.is_none()
                                    && callee.params.len() == args.len()
                                    && callee.params.iter().all(|(_, t)| *t != Ty::Ptr)
                                    && !captured
                                    && !callee.body.iter().any(|s| has_return_or_label(s))
                                    // no argument may mention a parameter name of the callee
                                    && !args.iter().any(|a| callee.params.iter().any(|(n, _)| crate::excl::mentions(a, n)));
                                if ok && self.hit() {
                                    let mut b: Vec<Stmt> = vec![];
                                    for ((n, t), a) in callee.params.iter().zip(args.iter()) {
                                        b.push(Stmt::Decl(VarDecl { name: n.clone(), ty: *t, kind: VarKind::Scalar, mem: MemQual::Default, explicit_sign: false, init: Some(a.clone()) }));
                                    }
                                    b.extend(callee.body.iter().cloned());
                                    v[i] = Stmt::Block(b);
                                    return;
                                }
                            }
                        }
                        if args.is_empty() {
                            if let Some(callee) = self.prog_funcs.iter().find(|h| &h.name == f) {
                                // hygiene: no local of the caller may capture a name the body uses
                                let captured = self.cur_locals.iter().any(|n| callee.body.iter().any(|s| stmt_mentions(s, n)));
                                let plain = callee.ret.is_none()
                                    && callee.params.is_empty()
                                    && !captured
                                    && !callee.body.iter().any(|s| has_return_or_label(s));
                                if plain && self.hit() {
                                    v[i] = Stmt::Block(callee.body.clone());
                                    return;
                                }
                            }
                        }
                    }
                }
                _ => {}
            }
            i += 1;
        }
    }
}

fn decl_names(s: &Stmt, out: &mut Vec<String>) {
    match s {
        Stmt::Decl(d) => out.push(d.name.clone()),
        Stmt::Block(b) => b.iter().for_each(|x| decl_names(x, out)),
        Stmt::If(_, a, b) => {
            decl_names(a, out);
            if let Some(b) = b {
                decl_names(b, out)
            }
        }
        Stmt::While(_, b) | Stmt::DoWhile(b, _) | Stmt::For(_, _, _, b) | Stmt::Label(_, b) => decl_names(b, out),
        Stmt::Switch(_, cs, d) => {
            cs.iter().for_each(|c| c.body.iter().for_each(|x| decl_names(x, out)));
            if let Some(d) = d {
                d.iter().for_each(|x| decl_names(x, out))
            }
        }
        _ => {}
    }
}

fn stmt_mentions(s: &Stmt, name: &str) -> bool {
    use crate::excl::mentions;
    match s {
        Stmt::Expr(e) | Stmt::Return(Some(e)) | Stmt::Load(e) => mentions(e, name),
        Stmt::Decl(d) => d.init.as_ref().map(|e| mentions(e, name)).unwrap_or(false),
        Stmt::Block(b) => b.iter().any(|x| stmt_mentions(x, name)),
        Stmt::If(c, a, b) => mentions(c, name) || stmt_mentions(a, name) || b.as_ref().map(|b| stmt_mentions(b, name)).unwrap_or(false),
        Stmt::While(c, b) | Stmt::DoWhile(b, c) => mentions(c, name) || stmt_mentions(b, name),
        Stmt::For(i, c, u, b) => [i, c, u].into_iter().flatten().any(|e| mentions(e, name)) || stmt_mentions(b, name),
        Stmt::Switch(e, cs, d) => {
            mentions(e, name)
                || cs.iter().any(|c| c.body.iter().any(|x| stmt_mentions(x, name)))
                || d.as_ref().map(|d| d.iter().any(|x| stmt_mentions(x, name))).unwrap_or(false)
        }
        Stmt::Label(_, x) => stmt_mentions(x, name),
        Stmt::Store(lv) | Stmt::Strobe(lv) => match lv {
            LValue::Var(n) | LValue::Deref(n) => n == name,
            LValue::Index(n, i) => n == name || mentions(i, name),
        },
        Stmt::Asm(t, _) => t.contains(name),
        _ => false,
    }
}

fn contains_continue(s: &Stmt) -> bool {
    match s {
        Stmt::Continue => true,
        Stmt::Block(b) => b.iter().any(contains_continue),
        Stmt::If(_, a, b) => contains_continue(a) || b.as_ref().map(|b| contains_continue(b)).unwrap_or(false),
        Stmt::Switch(_, cs, d) => {
            cs.iter().any(|c| c.body.iter().any(contains_continue)) || d.as_ref().map(|d| d.iter().any(contains_continue)).unwrap_or(false)
        }
        Stmt::Label(_, x) => contains_continue(x),
        // an inner loop owns its continues
        _ => false,
    }
}

fn contains_break(s: &Stmt) -> bool {
    match s {
        Stmt::Break => true,
        Stmt::Block(b) => b.iter().any(contains_break),
        Stmt::If(_, a, b) => contains_break(a) || b.as_ref().map(|b| contains_break(b)).unwrap_or(false),
        Stmt::Label(_, x) => contains_break(x),
        // `continue` inside a switch would bind to an outer loop in both forms; goto is fine
        _ => false,
    }
}

fn mentions_write(_s: &Stmt, _x: &str) -> bool {
    false
}

fn has_return_or_label(s: &Stmt) -> bool {
    match s {
        Stmt::Return(_) | Stmt::Label(_, _) | Stmt::Goto(_) | Stmt::Decl(_) => true,
        Stmt::Block(b) => b.iter().any(has_return_or_label),
        Stmt::If(_, a, b) => has_return_or_label(a) || b.as_ref().map(|b| has_return_or_label(b)).unwrap_or(false),
        Stmt::While(_, b) | Stmt::DoWhile(b, _) | Stmt::For(_, _, _, b) => has_return_or_label(b),
        Stmt::Switch(_, cs, d) => {
            cs.iter().any(|c| c.body.iter().any(has_return_or_label)) || d.as_ref().map(|d| d.iter().any(has_return_or_label)).unwrap_or(false)
        }
        _ => false,
    }
}

fn replace_index(e: &mut Expr, reg: &str, k: &Expr) {
    let fix = |i: &mut Box<Expr>| {
        if matches!(&**i, Expr::Lv(LValue::Var(q)) if q == reg) {
            **i = k.clone();
        }
    };
    match e {
        Expr::Lv(LValue::Index(_, i)) => fix(i),
        Expr::Un(_, a) => replace_index(a, reg, k),
        Expr::Bin(_, a, b) | Expr::Comma(a, b) => {
            replace_index(a, reg, k);
            replace_index(b, reg, k);
        }
        Expr::Assign(_, lv, r) => {
            if let LValue::Index(_, i) = lv {
                fix(i);
            }
            replace_index(r, reg, k);
        }
        Expr::IncDec(_, _, LValue::Index(_, i)) => fix(i),
        Expr::Call(_, a) => a.iter_mut().for_each(|x| replace_index(x, reg, k)),
        Expr::Ternary(c, a, b) => {
            replace_index(c, reg, k);
            replace_index(a, reg, k);
            replace_index(b, reg, k);
        }
        _ => {}
    }
}

/// number of applicable sites of `rw`, and the rewritten program for site index `target`
pub fn rewrite(p: &Program, rw: Rw, target: Option<u32>) -> (u32, Option<Program>) {
    let mut q = p.clone();
    let funcs = p.funcs.clone();
    let mut w = Walker { rw, target, count: 0, done: false, prog_funcs: &funcs, cur_locals: vec![] };
    for f in q.funcs.iter_mut() {
        let mut names: Vec<String> = f.params.iter().map(|p| p.0.clone()).collect();
        f.body.iter().for_each(|s| decl_names(s, &mut names));
        w.cur_locals = names;
        w.list(&mut f.body);
        if w.done {
            break;
        }
    }
    let done = w.done;
    (w.count, if done { Some(q) } else { None })
}

pub fn cfg() -> GenCfg {
    GenCfg { max_helpers: 2, max_stmts: 6, simple_helper_permille: 500, opt_stress: true, ..GenCfg::default() }
}

pub fn check(case: &Case, st: &mut Stats, ex: &Excl) -> Result<(), String> {
    st.count("pairs");
    let p = &case.sem.prog;
    if crate::excl::find_excluded(p, ex).is_some() {
        st.count("excluded_program");
        return Ok(());
    }
    let (n, _) = rewrite(p, case.rw, None);
    if n == 0 {
        st.count("no_applicable_site");
        return Ok(());
    }
    let site = case.site % n;
    let q = match rewrite(p, case.rw, Some(site)) {
        (_, Some(q)) => q,
        _ => return Ok(()),
    };
    if crate::excl::find_excluded(&q, ex).is_some() {
        // the rewritten spelling falls under a known finding (e.g. `x > 0` from `0 < x`)
        st.count("excluded_rewritten_program");
        return Ok(());
    }
    let qcase = SemCase { prog: q.clone(), ..case.sem.clone() };
    let src_p = case.sem.source();
    let src_q = qcase.source();
    if src_p == src_q {
        st.count("rewrite_is_identity");
        return Ok(());
    }
    // one case in four is compiled with the source listing on (both spellings): the listing must not
    // change what the generator knows at the entry of a function
    let mut o = case.sem.opts();
    o.insert_code = case.sem.layout_shuffle % 4 == 3;
    if o.insert_code {
        st.count("with_source_listing");
    }
    let a = sem::build_side(&src_p, &o, case.sem.layout_shuffle);
    let b = sem::build_side(&src_q, &o, case.sem.layout_shuffle);
    let (ia, ib) = match (a, b) {
        (Side::Ok(_, x), Side::Ok(_, y)) => (x, y),
        (Side::Ok(..), Side::Rejected(m)) | (Side::Rejected(m), Side::Ok(..)) => {
            // "too complex" is allowed per spelling
            st.count("one_side_rejected");
            st.count(&format!("rej:{}", m));
            return Ok(());
        }
        (Side::Rejected(_), Side::Rejected(_)) => {
            st.count("both_rejected");
            return Ok(());
        }
        _ => {
            st.count("not_runnable");
            return Ok(());
        }
    };
    st.count(&format!("rewrite:{:?}", case.rw));
    let sc = case.sem.signed_chars;
    let what = ("original".to_string(), format!("rewritten ({:?})", case.rw));
    // compare the globals of the ORIGINAL program (the rewritten one declares the same)
    let changed = sem::co_execute_f(p, &ia, &ib, &case.sem.inits, st, "C15", (&what.0, &what.1), &|init| {
        sem::outside_agreement_domain(p, &ia, init, sc, ex) || sem::outside_agreement_domain(&q, &ib, init, sc, ex)
    })
    .map_err(|e| format!("{} | original:\n{}\n| rewritten:\n{}", e, src_p, src_q))?;
    if changed > 0 {
        st.nontrivial(pbt::hash_str(&format!("{}|{}", src_p, src_q)));
        st.sample(2, || json!({"rewrite": format!("{:?}", case.rw), "original": src_p, "rewritten": src_q}));
    }
    Ok(())
}

pub fn run(ctx: &mut RunCtx) -> i32 {
    let cases = ctx.cases(60_000, 800_000);
    let n_inits = ctx.tier.pick(6, 16);
    let (excl, known_seen) = super::activate_exclusions(ctx, "C15");
    let mut cfg = cfg();
    cfg.excl = excl.clone();
    let (stats, failures, aborted) = pbt::run_sharded(
        ctx.seed,
        "C15",
        ctx.shards,
        cases,
        3000,
        |shard| {
            let mut cfg = cfg.clone();
            if shard % 4 == 3 {
                cfg.split_permille = 300;
                cfg.split_qual = if shard % 8 == 3 { MemQual::Superchip } else { MemQual::Bank(1) };
            }
            pbt::strategy(move |g| {
                // pick a rewrite that has a site in the generated program (retry a few times)
                let mut sem_case = sem::gen_case(g, &cfg, n_inits, &[0, 1], true);
                let mut rw = ALL[g.below(ALL.len())];
                for _ in 0..6 {
                    if rewrite(&sem_case.prog, rw, None).0 > 0 {
                        break;
                    }
                    rw = ALL[g.below(ALL.len())];
                    if g.chance(1, 3) {
                        sem_case = sem::gen_case(g, &cfg, n_inits, &[0, 1], true);
                    }
                }
                Case { sem: sem_case, rw, site: g.u32() % 1000 }
            })
        },
        |case: &Case, st: &mut Stats| check(case, st, &excl),
    );
    let mut violations = super::take_regressions();
    for f in failures {
        let class = f.reason.split(':').next().unwrap_or("").to_string();
        violations.push(Violation {
            class,
            detail: f.reason.lines().next().unwrap_or("").to_string(),
            replay: json!({"property": "C15", "kind": "c15", "reason": f.reason, "source": f.minimal.sem.source(), "case": f.minimal}),
        });
    }
    let s = Summary {
        stats,
        rule: "a generated program and one rewrite site chosen among: commute + & | ^, x op= e <-> x = x op e, ++x <-> x += 1, \
               if/else <-> negated if with swapped branches, a < b <-> b > a, for <-> while, break-terminated switch <-> if chain, \
               t[X] after X = k <-> t[k], call of a parameterless void helper <-> its body; each applied only where it is \
               meaning-preserving in C (operands without side effects); both spellings co-executed from K identical initial states; \
               pairs where exactly one spelling is rejected are discarded; non-trivial = both accepted and some vector changes the \
               compared state; distinct by hash of both sources"
            .into(),
        assumptions: vec!["only vectors inside the agreement domain of all RefC readings for both spellings are compared (mixed-signedness operands, UB and active dynamic exclusions are skipped)".into()],
        extra: json!({}),
        violations,
        known_seen,
        inconclusive: aborted,
    };
    report::finish(ctx, s)
}

pub fn replay_case(v: &serde_json::Value) -> Option<(bool, String)> {
    let case: Case = serde_json::from_value(v["case"].clone()).ok()?;
    let mut st = Stats::default();
    match check(&case, &mut st, &Excl::default()) {
        Ok(()) => Some((false, format!("{:?}", st.counters))),
        Err(r) => Some((true, r)),
    }
}
