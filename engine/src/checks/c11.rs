//! C11 — comments, layout and listing options never affect behaviour.
use crate::cc::{self, Outcome};
use crate::gen::{Excl, GenCfg};
use crate::pbt::{self, Reducible, Stats, G};
use crate::report::{self, RunCtx, Summary, Violation};
use crate::sem::{self, SemCase};
use serde::{Deserialize, Serialize};
use serde_json::json;

#[derive(Debug, Clone, Serialize, Deserialize, PartialEq)]
pub enum Deco {
    None,
    Spaces(u8),
    Tab,
    Newline,
    CrLf,
    BlankLines(u8),
    Splice,
    LineComment(u8),
    /// (text index, number of lines, keep the original blank around it)
    BlockComment(u8, u8, bool),
    /// two comments without anything between them, the second one ending the line:
    /// `/* a *//* b */` or `/* a */// b`; `glued` = no blank before the first one either
    Adjacent { first: u8, second: u8, line: bool, glued: bool },
    /// a skipped conditional block on lines of its own, holding a multi-line comment whose lines
    /// look like conditional directives (they are comment text, not directives)
    SkippedBlock(u8),
}

#[derive(Debug, Clone, Serialize, Deserialize)]
pub struct Case {
    pub sem: SemCase,
    pub decos: Vec<Deco>,
    pub insert_code: bool,
    pub warn: Option<String>,
}

impl Reducible for Case {
    fn reductions(&self) -> Vec<Case> {
        let mut out = vec![];
        // drop decorations: all, halves, singles
        let active: Vec<usize> = self.decos.iter().enumerate().filter(|(_, d)| **d != Deco::None).map(|(i, _)| i).collect();
        if active.len() > 1 {
            let h = active.len() / 2;
            for part in [&active[..h], &active[h..]] {
                let mut c = self.clone();
                for i in part {
                    c.decos[*i] = Deco::None;
                }
                out.push(c);
            }
        }
        for i in &active {
            let mut c = self.clone();
            c.decos[*i] = Deco::None;
            out.push(c);
        }
        if self.insert_code {
            out.push(Case { insert_code: false, ..self.clone() });
        }
        if self.warn.is_some() {
            out.push(Case { warn: None, ..self.clone() });
        }
        // shrinking the program changes the token stream: only try it without decorations left
        if active.len() <= 2 {
            for s in self.sem.reductions() {
                out.push(Case { sem: s, ..self.clone() });
            }
        }
        out
    }
}

const TEXTS: [&str; 12] = [
    "plain words",
    "see http://x.y/z for details",
    "a \"quoted\" word",
    "it's here",
    "slashes // inside",
    "an opener /* inside",
    "#define X 1",
    "stars * / * / and ** //",
    "#if 0",
    "ends with a star *",
    "char hidden; int also_hidden;",
    "}} {{ ;; ((",
];

#[derive(Debug, Clone, PartialEq)]
pub struct Tok {
    pub text: String,
    /// was there white space before this token in the plain source?
    pub space_before: bool,
    /// was that white space a line break?
    pub newline_before: bool,
}

pub fn tokenize(src: &str) -> Vec<Tok> {
    let b: Vec<char> = src.chars().collect();
    let mut i = 0;
    let mut out = vec![];
    let mut space = false;
    let mut nl = false;
    let ops3 = ["<<=", ">>="];
    let ops2 = ["<<", ">>", "<=", ">=", "==", "!=", "&&", "||", "+=", "-=", "&=", "|=", "^=", "++", "--", "*=", "/="];
    while i < b.len() {
        let c = b[i];
        if c.is_whitespace() {
            space = true;
            if c == '\n' {
                nl = true;
            }
            i += 1;
            continue;
        }
        let st = i;
        if c.is_ascii_alphanumeric() || c == '_' {
            while i < b.len() && (b[i].is_ascii_alphanumeric() || b[i] == '_') {
                i += 1;
            }
        } else if c == '\'' || c == '"' {
            i += 1;
            while i < b.len() && b[i] != c {
                if b[i] == '\\' {
                    i += 1;
                }
                i += 1;
            }
            i += 1;
        } else {
            let rest: String = b[i..(i + 3).min(b.len())].iter().collect();
            if ops3.iter().any(|o| rest.starts_with(o)) {
                i += 3;
            } else if ops2.iter().any(|o| rest.starts_with(o)) {
                i += 2;
            } else {
                i += 1;
            }
        }
        out.push(Tok { text: b[st..i.min(b.len())].iter().collect(), space_before: space, newline_before: nl });
        space = false;
        nl = false;
    }
    out
}

fn ident_like(t: &str) -> bool {
    t.chars().next().map(|c| c.is_ascii_alphanumeric() || c == '_').unwrap_or(false)
}

pub struct Rendered {
    pub text: String,
    pub tricky: bool,
    pub only_separator: bool,
}

pub fn render(src: &str, decos: &[Deco]) -> Rendered {
    let toks = tokenize(src);
    let mut out = String::new();
    let mut tricky = false;
    let mut only_sep = false;
    let mut in_line_comment_tail = false;
    let _ = &mut in_line_comment_tail;
    for (i, t) in toks.iter().enumerate() {
        if i > 0 {
            let d = decos.get(i - 1).cloned().unwrap_or(Deco::None);
            let orig = if t.newline_before {
                "\n"
            } else if t.space_before {
                " "
            } else {
                ""
            };
            match d {
                Deco::None => out.push_str(orig),
                Deco::Spaces(n) => {
                    out.push_str(orig);
                    for _ in 0..n {
                        out.push(' ');
                    }
                }
                Deco::Tab => {
                    out.push_str(orig);
                    out.push('\t');
                }
                Deco::Newline => {
                    out.push_str(orig);
                    out.push('\n');
                }
                Deco::CrLf => {
                    out.push_str(orig);
                    out.push_str("\r\n");
                }
                Deco::BlankLines(n) => {
                    out.push_str(orig);
                    for _ in 0..n {
                        out.push('\n');
                    }
                }
                Deco::Splice => {
                    out.push_str(orig);
                    out.push_str(" \\\n ");
                    tricky = true;
                }
                Deco::LineComment(k) => {
                    out.push_str(orig);
                    let text = TEXTS[k as usize % TEXTS.len()];
                    // a line comment may start with a star (a banner, the comment toggle idiom): `//*` is
                    // not the opening of a block comment
                    match (k as usize / TEXTS.len()) % 4 {
                        1 => out.push_str(&format!(" //* {}\n", text)),
                        2 => out.push_str(&format!(" //*/ {}\n", text)),
                        _ => out.push_str(&format!(" // {}\n", text)),
                    }
                    if text.contains("/*") || text.contains('"') || text.contains('#') {
                        tricky = true;
                    }
                }
                Deco::SkippedBlock(k) => {
                    out.push_str(orig);
                    out.push('\n');
                    match k % 4 {
                        0 => out.push_str("#if 0\nskipped text /* a comment opens here\n#else\n#endif\nand ends here */ more skipped text\n#endif\n"),
                        1 => out.push_str("#ifdef NOT_DEFINED_ANYWHERE\n/* note:\n#ifdef DEBUG\n*/\nchar hidden_by_the_condition;\n#endif\n"),
                        2 => out.push_str("#if 0\n/*\n#endif\n*/\n#else\n/* active part\n#if 0\n*/\n#endif\n"),
                        _ => out.push_str("#if 0\nit's \"quoted /* not a comment\"\n#endif\n"),
                    }
                    tricky = true;
                }
                Deco::Adjacent { first, second, line, glued } => {
                    let t1 = TEXTS[first as usize % TEXTS.len()];
                    let t2 = TEXTS[second as usize % TEXTS.len()];
                    // the first comment must not contain `//` or `/*` tricks of its own here: the point
                    // is the second comment starting right at the `*/`
                    let t1 = if t1.contains("*/") || t1.contains("//") || t1.contains("/*") { "set a" } else { t1 };
                    let t2 = if t2.contains("*/") { "was 0" } else { t2 };
                    let both_words = ident_like(&toks[i - 1].text) && ident_like(&t.text);
                    if !glued || both_words {
                        out.push_str(if orig.is_empty() { " " } else { orig });
                    }
                    if line {
                        out.push_str(&format!("/* {} */// {}\n", t1, t2));
                    } else {
                        out.push_str(&format!("/* {} *//* {} */\n", t1, t2));
                    }
                    tricky = true;
                }
                Deco::BlockComment(k, lines, keep) => {
                    let text = TEXTS[k as usize % TEXTS.len()];
                    let mut c = String::from("/*");
                    if lines <= 1 {
                        c.push_str(&format!(" {} ", text));
                    } else {
                        for l in 0..lines {
                            c.push_str(&format!(" {} line {}\n", text, l));
                        }
                    }
                    c.push_str("*/");
                    if text.contains("//") || text.contains('"') || text.contains('#') || text.contains("/*") {
                        tricky = true;
                    }
                    // the comment may stand in for the separator only between two words (where C needs
                    // one); elsewhere the original white space is kept (this grammar wants a blank
                    // after a type name even before '*')
                    let both_words = ident_like(&toks[i - 1].text) && ident_like(&t.text);
                    if keep || orig.is_empty() || !both_words {
                        if !orig.is_empty() {
                            out.push_str(orig);
                            out.push_str(&c);
                            out.push(' ');
                        } else {
                            // no separator existed and none is needed: the comment stands between two
                            // tokens that C already keeps apart
                            if ident_like(&toks[i - 1].text) && ident_like(&t.text) {
                                out.push(' ');
                            }
                            out.push_str(&c);
                        }
                    } else {
                        // the comment replaces the separator
                        if ident_like(&toks[i - 1].text) && ident_like(&t.text) {
                            only_sep = true;
                        }
                        out.push_str(&c);
                    }
                }
            }
        }
        out.push_str(&t.text);
    }
    out.push('\n');
    Rendered { text: out, tricky, only_separator: only_sep }
}

fn gen_deco(g: &mut G, ex: &Excl) -> Deco {
    match g.below(40) {
        0 => Deco::Spaces(1 + g.below(4) as u8),
        1 => Deco::Tab,
        2 => Deco::Newline,
        3 => Deco::CrLf,
        4 => Deco::BlankLines(1 + g.below(3) as u8),
        5 => Deco::Splice,
        6 | 7 => Deco::LineComment(g.below(4 * TEXTS.len()) as u8),
        8..=10 => {
            let mut k = g.below(TEXTS.len()) as u8;
            if ex.has("block_comment_with_slashes") && TEXTS[k as usize].contains("//") {
                k = 0;
            }
            let replace = g.chance(1, 4) && !ex.has("comment_as_only_separator");
            Deco::BlockComment(k, 1 + g.below(4) as u8, !replace)
        }
        12 if g.chance(1, 3) => Deco::SkippedBlock(g.below(4) as u8),
        11 => Deco::Adjacent { first: g.below(TEXTS.len()) as u8, second: g.below(TEXTS.len()) as u8, line: g.chance(1, 2), glued: g.chance(1, 2) },
        _ => Deco::None,
    }
}

pub fn cfg() -> GenCfg {
    GenCfg { max_stmts: 5, max_helpers: 2, opt_stress: true, ..GenCfg::default() }
}

pub fn gen_case(g: &mut G, cfg: &GenCfg, n_inits: usize, ex: &Excl) -> Case {
    let sem = sem::gen_case(g, cfg, n_inits, &[0, 1], false);
    let n = tokenize(&sem.source()).len();
    let decos = (0..n).map(|_| gen_deco(g, ex)).collect();
    Case {
        sem,
        decos,
        insert_code: g.chance(1, 3),
        warn: match g.below(4) {
            0 => Some("all".to_string()),
            1 => Some("perf".to_string()),
            _ => None,
        },
    }
}

/// instruction stream of a function text: drop `;` comment lines and cycle annotations
fn strip(asm: &str) -> Vec<String> {
    asm.lines()
        .filter(|l| !l.trim_start().starts_with(';') && !l.trim().is_empty())
        .map(|l| match l.find(';') {
            Some(i) => l[..i].trim_end().to_string(),
            None => l.trim_end().to_string(),
        })
        .collect()
}

pub fn check(case: &Case, st: &mut Stats, ex: &Excl) -> Result<(), String> {
    st.count("pairs");
    if crate::excl::find_excluded(&case.sem.prog, ex).is_some() {
        st.count("excluded_program");
        return Ok(());
    }
    let plain = case.sem.source();
    let r = render(&plain, &case.decos);
    if r.only_separator && ex.has("comment_as_only_separator") {
        st.count("excluded:comment_as_only_separator");
        return Ok(());
    }
    if ex.has("block_comment_with_slashes")
        && case.decos.iter().any(|d| matches!(d, Deco::BlockComment(k, _, _) if TEXTS[*k as usize % TEXTS.len()].contains("//")))
    {
        st.count("excluded:block_comment_with_slashes");
        return Ok(());
    }
    let o1 = case.sem.opts();
    let mut o2 = case.sem.opts();
    o2.insert_code = case.insert_code;
    if let Some(w) = &case.warn {
        o2.warnings.push(w.clone());
    }
    let a = cc::compile_str(&plain, &o1);
    let b = cc::compile_str(&r.text, &o2);
    let (ca, cb) = match (&a, &b) {
        (Outcome::Ok(x), Outcome::Ok(y)) => (x, y),
        (Outcome::Err(_), Outcome::Err(_)) => {
            st.count("both_rejected");
            return Ok(());
        }
        (Outcome::Panic(_), _) | (_, Outcome::Panic(_)) if a.kind() == b.kind() => {
            st.count("both_panic(routed to C16)");
            return Ok(());
        }
        _ => {
            return Err(format!(
                "C11-outcome: plain source gives {} but the decorated one gives {}",
                crate::tx::brief(&a),
                crate::tx::brief(&b)
            ))
        }
    };
    st.count("both_accepted");
    // declarations
    let va: Vec<String> = ca.vars.iter().map(|v| format!("{} {}", v.name, v.debug)).collect();
    let vb: Vec<String> = cb.vars.iter().map(|v| format!("{} {}", v.name, v.debug)).collect();
    if va != vb {
        let missing: Vec<&String> = va.iter().filter(|x| !vb.contains(x)).collect();
        let extra: Vec<&String> = vb.iter().filter(|x| !va.contains(x)).collect();
        return Err(format!("C11-declarations: decorated source declares different variables: missing {:?} extra {:?}", missing, extra));
    }
    let fa: Vec<String> = ca.funcs.iter().map(|f| format!("{} {}", f.name, f.debug)).collect();
    let fb: Vec<String> = cb.funcs.iter().map(|f| format!("{} {}", f.name, f.debug)).collect();
    if fa != fb {
        return Err(format!("C11-declarations: decorated source declares different functions: {:?} vs {:?}", fa, fb));
    }
    let mut same_code = true;
    for (x, y) in ca.funcs.iter().zip(cb.funcs.iter()) {
        if strip(&x.asm) != strip(&y.asm) {
            same_code = false;
        }
    }
    if !same_code {
        // stage 2: only a behavioural difference counts
        st.count("instruction_streams_differ");
        let ia = crate::exec::link(ca, &o1.scheme, case.sem.layout_shuffle, crate::exec::Which::InUse);
        let ib = crate::exec::link(cb, &o2.scheme, case.sem.layout_shuffle, crate::exec::Which::InUse);
        match (ia, ib) {
            (Ok(ia), Ok(ib)) => {
                let sc = case.sem.signed_chars;
                sem::co_execute_f(&case.sem.prog, &ia, &ib, &case.sem.inits, st, "C11", ("plain", "decorated"), &|init| {
                    sem::source_is_undefined(&case.sem.prog, &ia, init, sc)
                })?;
            }
            (Ok(_), Err(e)) => return Err(format!("C11-outcome: decorated program does not link/assemble: {:?}", e)),
            _ => {}
        }
    }
    if r.tricky {
        st.nontrivial(pbt::hash_str(&r.text));
        st.sample(2, || json!({"plain": plain, "decorated": r.text, "options": o2.describe()}));
    }
    Ok(())
}

pub fn run(ctx: &mut RunCtx) -> i32 {
    let cases = ctx.cases(40_000, 1_000_000);
    let (excl, known_seen) = super::activate_exclusions(ctx, "C11");
    let mut cfg = cfg();
    cfg.excl = excl.clone();
    let (stats, failures, aborted) = pbt::run_sharded(
        ctx.seed,
        "C11",
        ctx.shards,
        cases,
        3000,
        |_| {
            let cfg = cfg.clone();
            let ex = excl.clone();
            pbt::strategy(move |g| gen_case(g, &cfg, 4, &ex))
        },
        |case: &Case, st: &mut Stats| check(case, st, &excl),
    );
    let mut violations = super::take_regressions();
    for f in failures {
        let class = f.reason.split(':').next().unwrap_or("").to_string();
        let plain = f.minimal.sem.source();
        let r = render(&plain, &f.minimal.decos);
        violations.push(Violation {
            class,
            detail: f.reason.clone(),
            replay: json!({"property": "C11", "kind": "c11", "reason": f.reason, "source": r.text, "plain": plain, "case": f.minimal}),
        });
    }
    let s = Summary {
        stats,
        rule: "a generated program P and a decorated copy P' = the token stream of P with, between any two tokens, a random mix of \
               spaces, tabs, newlines, CR-LF, blank lines, backslash-newline, // comments and one- or multi-line /* */ comments \
               whose text contains quotes, //, /*, directives, URLs and star/slash runs (kept next to the original separator or \
               replacing it), compiled with --insert-code / -Wall / -Wperf at random; same result kind, same declarations, same \
               instruction stream per function (comment lines and cycle annotations dropped) or, failing that, same behaviour \
               on the emulator from 4 initial states; non-trivial = P' contains a splice or a comment with //, a quote, /* or a \
               directive look-alike; distinct by hash of P'"
            .into(),
        assumptions: vec!["decorations are only inserted between tokens (never inside one); generated programs contain no directives".into()],
        extra: json!({}),
        violations,
        known_seen,
        inconclusive: aborted,
    };
    report::finish(ctx, s)
}

/// replay of a hand-written pair of texts (kind "c11-text"): same outcome kind and declarations
pub fn replay_text(v: &serde_json::Value) -> Option<(bool, String)> {
    let plain = v["plain"].as_str()?;
    let deco = v["source"].as_str()?;
    let a = cc::compile_str(plain, &crate::cc::Opts::o(1));
    let b = cc::compile_str(deco, &crate::cc::Opts::o(1));
    let names = |o: &Outcome| -> Vec<String> {
        match o {
            Outcome::Ok(c) => c.vars.iter().map(|v| format!("{} {}", v.name, v.debug)).collect(),
            other => vec![crate::tx::brief(other)],
        }
    };
    if a.kind() != b.kind() || names(&a) != names(&b) {
        Some((true, format!("C11-declarations: plain {:?} vs decorated {:?}", names(&a), names(&b))))
    } else {
        Some((false, "same declarations".to_string()))
    }
}

pub fn replay_case(v: &serde_json::Value) -> Option<(bool, String)> {
    let case: Case = serde_json::from_value(v["case"].clone()).ok()?;
    let mut st = Stats::default();
    match check(&case, &mut st, &Excl::default()) {
        Ok(()) => Some((false, format!("{:?}", st.counters))),
        Err(r) => Some((true, r)),
    }
}
