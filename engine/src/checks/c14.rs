//! C14 — inlining is transparent (co-execution of inline variants against the plain program).
use crate::gen::{Excl, GenCfg};
use crate::pbt::{self, Stats};
use crate::report::{self, RunCtx, Summary, Violation};
use crate::sem::{self, SemCase, Side};
use serde_json::json;

pub fn cfg() -> GenCfg {
    GenCfg { helpers_must_exist: true, max_helpers: 4, inline_permille: 0, max_stmts: 5, simple_helper_permille: 250, asm_menu: true, ..GenCfg::default() }
}

fn has_branch_or_early_return(f: &crate::ast::Func) -> bool {
    use crate::ast::Stmt;
    fn st(s: &Stmt, top: bool, last: bool) -> bool {
        match s {
            Stmt::If(..) | Stmt::While(..) | Stmt::DoWhile(..) | Stmt::For(..) | Stmt::Switch(..) | Stmt::Goto(_) => true,
            Stmt::Return(_) => !(top && last),
            Stmt::Block(b) => b.iter().any(|x| st(x, false, false)),
            Stmt::Label(_, x) => st(x, false, false),
            Stmt::Expr(e) => {
                let mut f = false;
                crate::excl::walk(e, &mut |x| {
                    if matches!(x, crate::ast::Expr::Ternary(..)) || matches!(x, crate::ast::Expr::Bin(op, _, _) if op.is_cmp() || matches!(op, crate::ast::BinOp::LAnd | crate::ast::BinOp::LOr)) {
                        f = true;
                    }
                });
                f
            }
            _ => false,
        }
    }
    let n = f.body.len();
    f.body.iter().enumerate().any(|(i, s)| st(s, true, i + 1 == n))
}

fn count_calls(p: &crate::ast::Program, name: &str) -> usize {
    let mut n = 0;
    for f in &p.funcs {
        let mut calls = vec![];
        for s in &f.body {
            collect(s, &mut calls);
        }
        n += calls.iter().filter(|c| *c == name).count();
    }
    n
}

fn collect(s: &crate::ast::Stmt, out: &mut Vec<String>) {
    use crate::ast::Stmt;
    let ex = |e: &crate::ast::Expr, out: &mut Vec<String>| {
        crate::excl::walk(e, &mut |x| {
            if let crate::ast::Expr::Call(f, _) = x {
                out.push(f.clone());
            }
        })
    };
    match s {
        Stmt::Expr(e) | Stmt::Return(Some(e)) | Stmt::Load(e) => ex(e, out),
        Stmt::Decl(d) => {
            if let Some(e) = &d.init {
                ex(e, out)
            }
        }
        Stmt::Block(b) => b.iter().for_each(|x| collect(x, out)),
        Stmt::If(c, a, b) => {
            ex(c, out);
            collect(a, out);
            if let Some(b) = b {
                collect(b, out)
            }
        }
        Stmt::While(c, b) | Stmt::DoWhile(b, c) => {
            ex(c, out);
            collect(b, out)
        }
        Stmt::For(i, c, u, b) => {
            for e in [i, c, u].into_iter().flatten() {
                ex(e, out)
            }
            collect(b, out)
        }
        Stmt::Switch(e, cs, d) => {
            ex(e, out);
            for c in cs {
                c.body.iter().for_each(|x| collect(x, out));
            }
            if let Some(d) = d {
                d.iter().for_each(|x| collect(x, out))
            }
        }
        Stmt::Label(_, s) => collect(s, out),
        _ => {}
    }
}

pub fn check(case: &SemCase, st: &mut Stats, ex: &Excl, max_variants: usize) -> Result<(), String> {
    st.count("programs");
    if crate::excl::find_excluded(&case.prog, ex).is_some() {
        st.count("excluded_program");
        return Ok(());
    }
    // baseline: no helper inline
    let mut base_prog = case.prog.clone();
    for f in &mut base_prog.funcs {
        f.inline = false;
    }
    let base_case = SemCase { prog: base_prog.clone(), ..case.clone() };
    let base_src = base_case.source();
    let base = match sem::build_side(&base_src, &case.opts(), case.layout_shuffle) {
        Side::Ok(c, i) => (c, i),
        Side::Rejected(m) => {
            st.count("rejected");
            st.count(&format!("rej:{}", m));
            return Ok(());
        }
        _ => {
            st.count("baseline_not_runnable");
            return Ok(());
        }
    };
    st.count("accepted");
    let helpers: Vec<usize> = base_prog.funcs.iter().enumerate().filter(|(_, f)| f.name != "main" && !f.interrupt).map(|(i, _)| i).collect();
    if helpers.is_empty() {
        return Ok(());
    }
    // the case's own inline flags select the first variant; further variants enumerate subsets
    let n = helpers.len().min(4);
    let mut masks: Vec<u32> = vec![];
    let own: u32 = helpers.iter().enumerate().filter(|(_, i)| case.prog.funcs[**i].inline).map(|(k, _)| 1u32 << k).sum();
    if own != 0 {
        masks.push(own);
    }
    for m in 1..(1u32 << n) {
        if !masks.contains(&m) && masks.len() < max_variants {
            masks.push(m);
        }
    }
    let mut nontrivial = false;
    for m in masks {
        let mut p = base_prog.clone();
        for (k, i) in helpers.iter().enumerate() {
            if m & (1 << k) != 0 {
                p.funcs[*i].inline = true;
            }
        }
        let vcase = SemCase { prog: p.clone(), ..case.clone() };
        let vsrc = vcase.source();
        let var = match sem::build_side(&vsrc, &case.opts(), case.layout_shuffle) {
            Side::Ok(c, i) => (c, i),
            Side::Rejected(msg) => {
                // "too complex" may depend on the spelling; a rejection is not a behavioural difference
                st.count("variant_rejected");
                st.count(&format!("vrej:{}", msg));
                continue;
            }
            Side::Panic(p) => {
                st.count(&format!("variant_panic(routed to C16):{}", p));
                continue;
            }
            Side::Unlinkable(u) if !u.starts_with("asm:") => {
                // the image does not fit the harness's memory map (several copies of a big body):
                // a limit of the harness, not of the compiler
                st.count(&format!("variant_layout_discard:{}", u));
                continue;
            }
            Side::Unlinkable(u) => {
                return Err(format!("C14-unlinkable: with inline mask {:b} the program no longer assembles: {}", m, u));
            }
        };
        st.count("variants");
        let sc = case.signed_chars;
        let names = ("no inline".to_string(), format!("inline mask {:b}", m));
        let r = sem::co_execute_f(&base_prog, &base.1, &var.1, &case.inits, st, "C14", (&names.0, &names.1), &|init| {
            sem::source_is_undefined(&base_prog, &base.1, init, sc)
        });
        if let Err(e) = r {
            return Err(format!("{} [variant source differs only in the inline keyword; mask {:b}]", e, m));
        }
        // non-trivial: an inlined body with a branch / early return, expanded at >= 2 call sites
        for (k, i) in helpers.iter().enumerate() {
            if m & (1 << k) != 0 && has_branch_or_early_return(&p.funcs[*i]) && count_calls(&p, &p.funcs[*i].name) >= 2 {
                nontrivial = true;
            }
        }
        let _ = var.0;
    }
    if nontrivial {
        st.nontrivial(pbt::hash_str(&base_src));
        st.sample(2, || json!({"source_without_inline": base_src, "helpers": helpers.len(), "options": case.opts().describe()}));
    }
    Ok(())
}

pub fn run(ctx: &mut RunCtx) -> i32 {
    let cases = ctx.cases(20_000, 300_000);
    let (n_inits, maxv) = ctx.tier.pick((6, 6), (12, 15));
    let (excl, known_seen) = super::activate_exclusions(ctx, "C14");
    let mut cfg = cfg();
    cfg.excl = excl.clone();
    let (stats, failures, aborted) = pbt::run_sharded(
        ctx.seed,
        "C14",
        ctx.shards,
        cases,
        3000,
        |_| {
            let mut cfg = cfg.clone();
            // the generator marks some helpers inline: that choice is the first variant tried
            cfg.inline_permille = 500;
            pbt::strategy(move |g| sem::gen_case(g, &cfg, n_inits, &[0, 1], false))
        },
        |case: &SemCase, st: &mut Stats| check(case, st, &excl, maxv),
    );
    let mut violations = super::take_regressions();
    for f in failures {
        let class = f.reason.split(':').next().unwrap_or("").to_string();
        violations.push(Violation {
            class,
            detail: f.reason.clone(),
            replay: json!({"property": "C14", "kind": "c14", "reason": f.reason, "source": f.minimal.source(), "case": f.minimal}),
        });
    }
    let s = Summary {
        stats,
        rule: "generated programs with 1-4 helper functions called from 1-4 sites (nested calls, early returns, loops in bodies, \
               results used in larger expressions); for up to 6 (quick) / 15 (thorough) subsets of the helpers the variant with \
               those helpers marked inline is co-executed with the variant without any inline keyword from K identical initial \
               states; non-trivial = an inlined body contains a branch or an early return and is expanded at >= 2 call sites; \
               distinct by hash of the source"
            .into(),
        assumptions: vec!["vectors on which the source has undefined behaviour (RefC, any reading) are skipped".into()],
        extra: json!({}),
        violations,
        known_seen,
        inconclusive: aborted,
    };
    report::finish(ctx, s)
}

pub fn replay_case(v: &serde_json::Value) -> Option<(bool, String)> {
    let case: SemCase = serde_json::from_value(v["case"].clone()).ok()?;
    let mut st = Stats::default();
    match check(&case, &mut st, &Excl::default(), 15) {
        Ok(()) => Some((false, format!("{:?}", st.counters))),
        Err(r) => Some((true, r)),
    }
}
