//! C08 — macro expansion is token-exact (differential against hand expansion by a model).
use crate::cc::{self, Opts, Outcome};
use crate::gen::Excl;
use crate::pbt::{self, Reducible, Stats, G};
use crate::report::{self, RunCtx, Summary, Violation};
use crate::tx;
use serde::{Deserialize, Serialize};
use serde_json::json;
use std::collections::BTreeMap;

#[derive(Debug, Clone, Serialize, Deserialize, PartialEq)]
pub struct Macro {
    pub name: String,
    /// None = object-like
    pub params: Option<Vec<String>>,
    pub body: String,
}

#[derive(Debug, Clone, Serialize, Deserialize, PartialEq)]
pub enum Line {
    Define(usize),
    Undef(usize),
    /// any other source line (may use macros); `body` = inside main
    Code { text: String, body: bool },
}

#[derive(Debug, Clone, Serialize, Deserialize)]
pub struct Case {
    pub macros: Vec<Macro>,
    pub lines: Vec<Line>,
    /// object-like macros (indices) given on the command line instead of #define
    pub cmdline: Vec<usize>,
    pub labels: Vec<String>,
}

impl Reducible for Case {
    fn reductions(&self) -> Vec<Case> {
        let mut out = vec![];
        if self.lines.len() > 8 {
            let h = self.lines.len() / 2;
            let mut c = self.clone();
            c.lines.truncate(h);
            out.push(c);
            let mut c = self.clone();
            c.lines.drain(..h);
            out.push(c);
        }
        for i in 0..self.lines.len() {
            let mut c = self.clone();
            c.lines.remove(i);
            out.push(c);
        }
        for i in 0..self.cmdline.len() {
            let mut c = self.clone();
            c.cmdline.remove(i);
            out.push(c);
        }
        out
    }
}

// ------------------------------------------------------------------ expansion model

#[derive(Debug, Clone, PartialEq)]
enum Tok {
    Id(String),
    /// string / char literal or anything else, verbatim
    Other(String),
}

fn tokenize(s: &str) -> Vec<Tok> {
    let b: Vec<char> = s.chars().collect();
    let mut i = 0;
    let mut out = vec![];
    while i < b.len() {
        let c = b[i];
        if c.is_ascii_alphabetic() || c == '_' {
            let st = i;
            while i < b.len() && (b[i].is_ascii_alphanumeric() || b[i] == '_') {
                i += 1;
            }
            out.push(Tok::Id(b[st..i].iter().collect()));
        } else if c.is_ascii_digit() {
            // a number (possibly with letters: 0x1f): one token, never an identifier
            let st = i;
            while i < b.len() && (b[i].is_ascii_alphanumeric() || b[i] == '_') {
                i += 1;
            }
            out.push(Tok::Other(b[st..i].iter().collect()));
        } else if c == '"' || c == '\'' {
            let st = i;
            i += 1;
            while i < b.len() && b[i] != c {
                if b[i] == '\\' {
                    i += 1;
                }
                i += 1;
            }
            i = (i + 1).min(b.len());
            out.push(Tok::Other(b[st..i].iter().collect()));
        } else {
            out.push(Tok::Other(c.to_string()));
            i += 1;
        }
    }
    out
}

fn untok(t: &[Tok]) -> String {
    t.iter()
        .map(|x| match x {
            Tok::Id(s) | Tok::Other(s) => s.as_str(),
        })
        .collect()
}

thread_local! {
    /// deepest parenthesis nesting met inside one macro argument (as written or once its own macro
    /// calls are expanded) since the last reset
    pub static MAX_ARG_DEPTH: std::cell::Cell<u32> = std::cell::Cell::new(0);
}

fn paren_depth(s: &str) -> u32 {
    let (mut d, mut m) = (0i32, 0i32);
    for c in s.chars() {
        if c == '(' {
            d += 1;
            m = m.max(d);
        } else if c == ')' {
            d -= 1;
        }
    }
    m.max(0) as u32
}

/// Expand `text` with the macros currently defined. Lazy (ISO) expansion; bodies are rescanned.
pub fn expand(text: &str, defs: &BTreeMap<String, Macro>, depth: u32) -> String {
    if depth > 40 {
        return text.to_string();
    }
    let toks = tokenize(text);
    let mut out: Vec<Tok> = vec![];
    let mut i = 0;
    while i < toks.len() {
        if let Tok::Id(name) = &toks[i] {
            if let Some(m) = defs.get(name) {
                match &m.params {
                    None => {
                        let e = expand(&m.body, defs, depth + 1);
                        out.push(Tok::Other(e));
                        i += 1;
                        continue;
                    }
                    Some(params) => {
                        // function-like: needs '(' (possibly after blanks)
                        let mut j = i + 1;
                        while j < toks.len() && matches!(&toks[j], Tok::Other(s) if s == " ") {
                            j += 1;
                        }
                        if j < toks.len() && toks[j] == Tok::Other("(".into()) && j == i + 1 {
                            // collect arguments
                            let mut args: Vec<Vec<Tok>> = vec![vec![]];
                            let mut level = 1;
                            let mut k = j + 1;
                            while k < toks.len() {
                                match &toks[k] {
                                    Tok::Other(s) if s == "(" => {
                                        level += 1;
                                        args.last_mut().unwrap().push(toks[k].clone());
                                    }
                                    Tok::Other(s) if s == ")" => {
                                        level -= 1;
                                        if level == 0 {
                                            break;
                                        }
                                        args.last_mut().unwrap().push(toks[k].clone());
                                    }
                                    Tok::Other(s) if s == "," && level == 1 => args.push(vec![]),
                                    t => args.last_mut().unwrap().push(t.clone()),
                                }
                                k += 1;
                            }
                            if level == 0 && (args.len() == params.len() || (params.is_empty() && args.len() == 1 && untok(&args[0]).trim().is_empty())) {
                                for a in &args {
                                    let raw = untok(a);
                                    let d = paren_depth(&raw).max(paren_depth(&expand(&raw, defs, depth + 1)));
                                    MAX_ARG_DEPTH.with(|c| c.set(c.get().max(d)));
                                }
                                // substitute parameters in the body, then rescan
                                let body = tokenize(&m.body);
                                let mut sub = String::new();
                                for t in body {
                                    match &t {
                                        Tok::Id(n) => match params.iter().position(|p| p == n) {
                                            Some(pi) => sub.push_str(&expand(&untok(&args[pi]), defs, depth + 1)),
                                            None => sub.push_str(n),
                                        },
                                        Tok::Other(s) => sub.push_str(s),
                                    }
                                }
                                out.push(Tok::Other(expand(&sub, defs, depth + 1)));
                                i = k + 1;
                                continue;
                            }
                        }
                    }
                }
            }
        }
        out.push(toks[i].clone());
        i += 1;
    }
    untok(&out)
}

// ------------------------------------------------------------------ generation

const PARAMS: [&str; 4] = ["pa", "pb", "pc", "pd"];

fn gen_arg(g: &mut G, macros: &[Macro], depth: u32) -> String {
    if g.chance(1, 8) {
        // an argument with exactly 3 or 4 levels of parentheses (the documented limit is 4)
        let d = 3 + g.below(2);
        return format!("{}uc2+{}{}", "(".repeat(d), g.below(5), ")".repeat(d));
    }
    if g.chance(1, 10) {
        // a character constant: hidden while the macros are replaced, then put back wherever the
        // parameter was used
        return (*g.pick(&["'q'", "'7'", "'Z'", "' '"])).to_string();
    }
    match g.below(if depth > 0 { 7 } else { 3 }) {
        0 => format!("{}", g.below(9)),
        1 => "uc2".to_string(),
        2 => format!("{}+{}", g.below(5), g.below(5)),
        3 => format!("({})", gen_arg(g, macros, depth - 1)),
        4 => format!("({}, {})", g.below(5), gen_arg(g, macros, depth - 1)), // comma inside parentheses
        _ => gen_use(g, macros, depth - 1),
    }
}

/// a use of a random macro (object-like name, or call with arguments)
fn gen_use(g: &mut G, macros: &[Macro], depth: u32) -> String {
    if macros.is_empty() {
        return "1".to_string();
    }
    let i = g.below(macros.len());
    gen_use_of(g, macros, i, depth)
}

/// a use of macro number `i`
fn gen_use_of(g: &mut G, macros: &[Macro], i: usize, depth: u32) -> String {
    let m = &macros[i];
    match &m.params {
        None => m.name.clone(),
        Some(p) => {
            let mut args: Vec<String> = p.iter().map(|_| gen_arg(g, macros, depth)).collect();
            // a call nested in a call of the same macro: the result of the first replacement round
            // contains the name again
            if !args.is_empty() && depth > 0 && g.chance(1, 5) {
                let inner: Vec<String> = p.iter().map(|_| format!("{}", g.below(9))).collect();
                args[0] = format!("{}({})", m.name, inner.join(","));
            }
            let sep = if g.chance(1, 2) { ", " } else { "," };
            format!("{}({})", m.name, args.join(sep))
        }
    }
}

pub fn gen_case(g: &mut G, ex: &Excl) -> Case {
    let mut labels = vec![];
    let many = g.chance(1, 12);
    let n = if many { 95 + g.below(30) } else { 1 + g.below(10) };
    if many {
        labels.push("more-than-100-macros".to_string());
    }
    let mut macros: Vec<Macro> = vec![];
    // macros that an earlier body names before they are defined (forward reference): plain values
    let mut forward_targets: Vec<usize> = vec![];
    for i in 0..n {
        if forward_targets.contains(&i) {
            macros.push(Macro { name: format!("N{}", i + 1), params: None, body: format!("{}", g.below(50)) });
            continue;
        }
        if i + 1 < n && g.chance(1, 12) {
            let j = i + 1 + g.below(n - i - 1);
            forward_targets.push(j);
            if !labels.contains(&"forward-reference".to_string()) {
                labels.push("forward-reference".to_string());
            }
            macros.push(Macro { name: format!("N{}", i + 1), params: None, body: format!("(N{}+1)", j + 1) });
            continue;
        }
        let fl = g.chance(2, 5);
        let name = format!("{}{}", if fl { "F" } else { "N" }, i + 1);
        if fl {
            let np = g.below(4);
            let mut params: Vec<String> = (0..np).map(|k| PARAMS[k].to_string()).collect();
            // rare class: a parameter named like an earlier object-like macro (it shadows the macro)
            if !ex.has("param_shadows_macro") && np > 0 && g.chance(1, 25) {
                if let Some(o) = macros.iter().find(|m| m.params.is_none()) {
                    params[0] = o.name.clone();
                    if !labels.contains(&"param-shadows-macro".to_string()) {
                        labels.push("param-shadows-macro".to_string());
                    }
                }
            }
            let mut body = String::from("(");
            if params.is_empty() {
                body.push_str(&format!("{}", g.below(9)));
            }
            for (k, p) in params.iter().enumerate() {
                if k > 0 {
                    body.push_str(*g.pick(&["+", "-", "|", "^", "&", " + "]));
                }
                let times = 1 + g.below(2);
                for t in 0..times {
                    if t > 0 {
                        body.push('+');
                    }
                    body.push_str(&if g.chance(1, 2) { format!("({})", p) } else { p.clone() });
                }
            }
            if !macros.is_empty() && g.chance(1, 3) {
                body.push('+');
                body.push_str(&gen_use(g, &macros, 0));
            }
            body.push(')');
            macros.push(Macro { name, params: Some(params), body });
        } else {
            let body = match g.below(6) {
                // a parenthesised identifier: an object-like macro whose body looks like a parameter list
                5 => (*g.pick(&["(uc2)", "(uc2)", "(uc1)", "(us1)"])).to_string(),
                // a value that itself contains `=` (what a -D option is split at)
                4 => format!("({}=={})", g.below(4), g.below(4)),
                0 => format!("{}", g.below(50)),
                1 => format!("({}+{})", g.below(9), g.below(9)),
                2 if !macros.is_empty() => format!("({}+1)", gen_use(g, &macros, 1)),
                _ => format!("0x{:x}", g.below(200)),
            };
            macros.push(Macro { name, params: None, body });
        }
    }
    // command-line definitions: a few object-like macros whose body does not use other macros
    let mut cmdline = vec![];
    if g.chance(1, 3) {
        for (i, m) in macros.iter().enumerate() {
            if m.params.is_none() && !m.body.contains('N') && !m.body.contains('F') && g.chance(1, 3) && cmdline.len() < 4 {
                cmdline.push(i);
            }
        }
        if !cmdline.is_empty() {
            labels.push("-D".to_string());
        }
    }
    // rare class: a -D macro defined in terms of another -D macro (-DA=7 -DB=A)
    if !ex.has("dash_d_chain") && g.chance(1, 20) {
        let a = macros.len();
        macros.push(Macro { name: format!("N{}", a + 1), params: None, body: "7".to_string() });
        macros.push(Macro { name: format!("N{}", a + 2), params: None, body: format!("N{}", a + 1) });
        cmdline.push(a);
        cmdline.push(a + 1);
        labels.push("-D-chain".to_string());
    }
    let mut lines = vec![];
    for i in 0..macros.len() {
        if !cmdline.contains(&i) {
            lines.push(Line::Define(i));
        }
    }
    // near-miss identifiers: declared as plain variables, must never be expanded
    let near: Vec<String> = if macros.is_empty() {
        vec![]
    } else {
        let m = macros[g.below(macros.len())].name.clone();
        labels.push("near-miss-identifier".to_string());
        vec![format!("{}x", m), format!("x{}", m), format!("a{}b", m), format!("{}_", m)]
    };
    for v in &near {
        lines.push(Line::Code { text: format!("char {};", v), body: false });
    }
    let nuse = 2 + g.below(6);
    let mut vk = 0;
    for _ in 0..nuse {
        vk += 1;
        let u = gen_use(g, &macros, 2);
        if u.contains('(') {
            if !labels.contains(&"function-like-use".to_string()) {
                labels.push("function-like-use".to_string());
            }
        }
        // a use that expands to something naming a variable can only stand in a function body
        let all: BTreeMap<String, Macro> = macros.iter().map(|m| (m.name.clone(), m.clone())).collect();
        let xu = expand(&u, &all, 0);
        let glob = !xu.contains("uc1") && !xu.contains("uc2") && !xu.contains("us1");
        match g.below(6) {
            0 | 1 if glob => lines.push(Line::Code { text: format!("const short v{} = {};", vk, u), body: false }),
            2 if glob => lines.push(Line::Code { text: format!("const char w{}[] = \"{} {}x\";", vk, u.replace('"', ""), u.replace('"', "")), body: false }),
            3 if glob => lines.push(Line::Code { text: format!("const short t{}[2] = {{{}, {}+1}};", vk, u, u), body: false }),
            _ => {
                let op = *g.pick(&["+", "-", "&", "|"]);
                lines.push(Line::Code { text: format!("  uc1 = {}{}{};", u, op, g.below(9)), body: true });
            }
        }
    }
    for v in &near {
        lines.push(Line::Code { text: format!("  {} = {};", v, g.below(200)), body: true });
    }
    // with more than 100 macros: the macros that fill one table and open the next one are used
    if many && macros.len() > 102 {
        for _ in 0..1 + g.below(2) {
            let i = 96 + g.below(6);
            let u = gen_use_of(g, &macros, i, 1);
            lines.push(Line::Code { text: format!("  uc1 = {}+{};", u, g.below(9)), body: true });
        }
        labels.push("use-of-a-macro-at-the-100-boundary".to_string());
    }
    // with more than 100 macros: several #undef, one in the first table of 100 and then some around
    // the boundary between the tables (the built-in macro and -D macros shift it by a few places)
    let mut many_undefs = false;
    if many && g.chance(2, 3) {
        let eligible: Vec<usize> = macros
            .iter()
            .enumerate()
            .filter(|(i, m)| m.params.is_none() && !cmdline.contains(i) && !macros.iter().any(|o| o.name != m.name && tokenize(&o.body).contains(&Tok::Id(m.name.clone()))))
            .map(|(i, _)| i)
            .collect();
        let early: Vec<usize> = eligible.iter().cloned().filter(|i| *i < 90).collect();
        let late: Vec<usize> = eligible.iter().cloned().filter(|i| (94..=104).contains(i)).collect();
        let mut picks = vec![];
        if !early.is_empty() {
            picks.push(early[g.below(early.len())]);
        }
        for i in late {
            if g.chance(2, 3) {
                picks.push(i);
            }
        }
        if picks.len() >= 2 {
            many_undefs = true;
            labels.push("several-undefs-across-the-100-boundary".to_string());
            for i in picks {
                let name = macros[i].name.clone();
                lines.push(Line::Undef(i));
                lines.push(Line::Code { text: format!("char {};", name), body: false });
                lines.push(Line::Code { text: format!("  {} = 5;", name), body: true });
            }
        }
    }
    // #undef of an object-like macro, then the name is reused as a variable
    if !many_undefs && g.chance(1, 3) {
        if let Some((i, m)) = macros.iter().enumerate().filter(|(i, m)| m.params.is_none() && !cmdline.contains(i)).last() {
            // only if no other macro body mentions it
            if !macros.iter().any(|o| o.name != m.name && tokenize(&o.body).contains(&Tok::Id(m.name.clone()))) {
                labels.push("undef".to_string());
                lines.push(Line::Undef(i));
                lines.push(Line::Code { text: format!("char {};", m.name), body: false });
                lines.push(Line::Code { text: format!("  {} = 5;", m.name), body: true });
            }
        }
    }
    Case { macros, lines, cmdline, labels }
}

/// returns (source with macros, hand-expanded source, -D options)
pub fn render(case: &Case, with_d: bool) -> (String, String, Vec<String>) {
    let mut p = String::new();
    let mut q = String::new();
    let mut defs: BTreeMap<String, Macro> = BTreeMap::new();
    let mut dopts = vec![];
    for i in &case.cmdline {
        let m = &case.macros[*i];
        if with_d {
            dopts.push(format!("{}={}", m.name, m.body));
        } else {
            p.push_str(&format!("#define {} {}\n", m.name, m.body));
        }
        defs.insert(m.name.clone(), m.clone());
    }
    let head = "char uc1, uc2;\nshort us1;\n";
    p.push_str(head);
    q.push_str(head);
    let mut body_p = String::new();
    let mut body_q = String::new();
    // global lines in order; body lines are collected and placed in main. Definitions and
    // undefs take effect in order: body lines see the macro table at their own position, so
    // main is emitted after the last global line and body lines are expanded eagerly here.
    for l in &case.lines {
        match l {
            Line::Define(i) => {
                let m = &case.macros[*i];
                match &m.params {
                    None => p.push_str(&format!("#define {} {}\n", m.name, m.body)),
                    Some(ps) => p.push_str(&format!("#define {}({}) {}\n", m.name, ps.join(","), m.body)),
                }
                defs.insert(m.name.clone(), m.clone());
            }
            Line::Undef(i) => {
                p.push_str(&format!("#undef {}\n", case.macros[*i].name));
                defs.remove(&case.macros[*i].name);
            }
            Line::Code { text, body: false } => {
                p.push_str(text);
                p.push('\n');
                q.push_str(&expand(text, &defs, 0));
                q.push('\n');
            }
            Line::Code { text, body: true } => {
                // body lines are emitted at the end, inside main; they are expanded with the final
                // macro table of the file, which is also what the compiler sees there
                body_p.push_str(text);
                body_p.push('\n');
                body_q.push_str(text);
                body_q.push('\n');
            }
        }
    }
    p.push_str("void main()\n{\n");
    q.push_str("void main()\n{\n");
    p.push_str(&body_p);
    for l in body_q.lines() {
        q.push_str(&expand(l, &defs, 0));
        q.push('\n');
    }
    p.push_str("}\n");
    q.push_str("}\n");
    (p, q, dopts)
}

fn dump(o: &Outcome) -> String {
    match o {
        Outcome::Ok(c) => {
            let mut s = String::new();
            for v in &c.vars {
                s.push_str(&format!("{} {}\n", v.name, v.debug));
            }
            for f in &c.funcs {
                s.push_str(&format!("== {}\n{}", f.name, f.asm));
            }
            s
        }
        Outcome::Err(e) => format!("ERR {}", e.msg()),
        Outcome::Panic(p) => format!("PANIC {}", p.sig),
    }
}

pub fn check(case: &Case, st: &mut Stats, ex: &Excl) -> Result<(), String> {
    st.count("tables");
    let _ = tx::brief;
    if ex.has("dash_d_chain") && case.labels.iter().any(|l| l == "-D-chain") {
        st.count("excluded:dash_d_chain");
        return Ok(());
    }
    if ex.has("param_shadows_macro") && case.labels.iter().any(|l| l == "param-shadows-macro") {
        st.count("excluded:param_shadows_macro");
        return Ok(());
    }
    MAX_ARG_DEPTH.with(|c| c.set(0));
    let (p, q, _) = render(case, false);
    let arg_depth = MAX_ARG_DEPTH.with(|c| c.get());
    st.count(&format!("max_argument_paren_depth:{}", arg_depth.min(6)));
    if ex.has("macro_arg_paren_depth") && arg_depth > 4 {
        // some macro argument nests parentheses deeper than 4 levels (as written or once expanded)
        st.count("excluded:macro_arg_paren_depth");
        return Ok(());
    }
    let o = Opts::o(1);
    let rp = cc::compile_str(&p, &o);
    let rq = cc::compile_str(&q, &o);
    if let Outcome::Err(e) = &rq {
        // the hand-expanded program itself is not accepted: the case says nothing about macros
        st.count("expanded_program_rejected");
        st.count(&format!("rej:{}", crate::sem::msg_key(&e.msg())));
        return Ok(());
    }
    if let Outcome::Panic(_) = &rq {
        st.count("expanded_program_panics(routed to C16)");
        return Ok(());
    }
    let dp = dump(&rp);
    let dq = dump(&rq);
    if dp != dq {
        let (lp, lq) = first_diff(&dp, &dq);
        return Err(format!("C08-expansion: program with macros differs from its hand expansion: with macros `{}`, expanded `{}`", lp, lq));
    }
    for l in &case.labels {
        st.count(&format!("label:{}", l));
    }
    if !case.cmdline.is_empty() {
        // -D NAME=VALUE must behave like #define NAME VALUE at the top of the file
        let (pd, _, dopts) = render(case, true);
        let mut od = Opts::o(1);
        od.defines = dopts.clone();
        let rd = cc::compile_str(&pd, &od);
        let dd = dump(&rd);
        if dd != dp {
            let (a, b) = first_diff(&dd, &dp);
            return Err(format!("C08-dash-d: -D {:?} differs from the same #defines at the top: `{}` vs `{}`", dopts, a, b));
        }
        st.count("dash_d_compared");
    }
    if !case.labels.is_empty() {
        st.nontrivial(pbt::hash_str(&p));
        st.sample(2, || json!({"with_macros": p, "hand_expanded": q, "labels": case.labels}));
    }
    Ok(())
}

fn first_diff(a: &str, b: &str) -> (String, String) {
    let mut la = a.lines();
    let mut lb = b.lines();
    loop {
        match (la.next(), lb.next()) {
            (Some(x), Some(y)) if x == y => continue,
            (x, y) => return (x.unwrap_or("<end>").trim().to_string(), y.unwrap_or("<end>").trim().to_string()),
        }
    }
}

pub fn run(ctx: &mut RunCtx) -> i32 {
    let cases = ctx.cases(4_500, 150_000);
    let (excl, known_seen) = super::activate_exclusions(ctx, "C08");
    let (stats, failures, aborted) = pbt::run_sharded(
        ctx.seed,
        "C08",
        ctx.shards,
        cases,
        200,
        |_| {
            let ex = excl.clone();
            pbt::strategy(move |g| gen_case(g, &ex))
        },
        |case: &Case, st: &mut Stats| check(case, st, &excl),
    );
    let mut violations = super::take_regressions();
    for f in failures {
        let class = f.reason.split(':').next().unwrap_or("").to_string();
        let (p, q, d) = render(&f.minimal, false);
        violations.push(Violation {
            class,
            detail: f.reason.clone(),
            replay: json!({"property": "C08", "kind": "c08", "reason": f.reason, "source": p, "hand_expanded": q, "dash_d": d, "case": f.minimal}),
        });
    }
    let s = Summary {
        stats,
        rule: "macro tables built structurally (object-like and function-like with 0-3 parameters, bodies using earlier macros, 1-125 \
               macros so that the 100-entry boundary is crossed, #undef with reuse of the name as a variable), use sites in \
               initialisers, array elements, strings and statements, near-miss identifiers (prefix/suffix/infix of a macro name) \
               declared as variables, arguments with nested parentheses, commas in parentheses and nested calls; oracle = the same \
               program with every use replaced by the model's expansion must compile to identical variables and code; -D given \
               macros must equal #defines at the top; non-trivial = carries a label (function-like use, near-miss identifier, \
               >100 macros, #undef, -D); distinct by hash of source"
            .into(),
        assumptions: vec![
            "no redefinition, no self-reference, no # / ## operators, no multi-line invocations, no macro named like a keyword".into(),
        ],
        extra: json!({}),
        violations,
        known_seen,
        inconclusive: aborted,
    };
    report::finish(ctx, s)
}

pub fn replay_case(v: &serde_json::Value) -> Option<(bool, String)> {
    let case: Case = serde_json::from_value(v["case"].clone()).ok()?;
    let mut st = Stats::default();
    match check(&case, &mut st, &Excl::default()) {
        Ok(()) => Some((false, format!("{:?}", st.counters))),
        Err(r) => Some((true, r)),
    }
}
