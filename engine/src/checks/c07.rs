//! C07 — conditional compilation keeps exactly the active text.
//!
//! The generator builds a well-nested tree of conditional groups together with the expected
//! outcome (constructive model): which marker declarations survive, or which #error fires.
use crate::cc::{self, CcError, Opts, Outcome};
use crate::pbt::{self, Reducible, Stats, G};
use crate::report::{self, RunCtx, Summary, Violation};
use crate::tx;
use serde::{Deserialize, Serialize};
use serde_json::json;
use std::collections::{BTreeMap, BTreeSet};

#[derive(Debug, Clone, Serialize, Deserialize, PartialEq)]
pub enum Cond {
    Lit(bool),
    Mac(String),
    Not(Box<Cond>),
    /// `! c`: a blank between the operator and its operand
    NotSp(Box<Cond>),
    Eq(Box<Cond>, Box<Cond>),
}

#[derive(Debug, Clone, Serialize, Deserialize, PartialEq)]
pub enum Head {
    If(Cond),
    Ifdef(String),
    Ifndef(String),
}

#[derive(Debug, Clone, Serialize, Deserialize, PartialEq)]
pub enum Item {
    Marker(u32),
    Define(String, Option<bool>),
    Undef(String),
    Error(u32),
    Include(u32),
    Group(Group),
    /// a block comment over several lines whose text looks like directives (variant 0-3); it opens after
    /// a declaration on an ordinary line, so that the scanner must see that line even in a skipped region
    Comment(u8),
}

#[derive(Debug, Clone, Serialize, Deserialize, PartialEq)]
pub struct Group {
    pub head: Head,
    pub then: Vec<Item>,
    pub elifs: Vec<(Cond, Vec<Item>)>,
    pub els: Option<Vec<Item>>,
}

#[derive(Debug, Clone, Serialize, Deserialize)]
pub struct Case {
    pub items: Vec<Item>,
    /// -D options: name -> Some(value) or None (defined, value "1")
    pub cmdline: Vec<(String, Option<bool>)>,
    /// markers declared by header h<k>.h
    pub headers: Vec<u32>,
}

impl Reducible for Case {
    fn reductions(&self) -> Vec<Case> {
        fn red(items: &[Item]) -> Vec<Vec<Item>> {
            let mut out = vec![];
            for i in 0..items.len() {
                let mut v = items.to_vec();
                v.remove(i);
                out.push(v);
            }
            for i in 0..items.len() {
                if let Item::Group(g) = &items[i] {
                    // replace the group by one of its bodies
                    let mut bodies: Vec<&Vec<Item>> = vec![&g.then];
                    for e in &g.elifs {
                        bodies.push(&e.1);
                    }
                    if let Some(e) = &g.els {
                        bodies.push(e);
                    }
                    for b in bodies {
                        let mut v = items.to_vec();
                        v.splice(i..=i, b.iter().cloned());
                        out.push(v);
                    }
                    if !g.elifs.is_empty() {
                        for k in 0..g.elifs.len() {
                            let mut g2 = g.clone();
                            g2.elifs.remove(k);
                            let mut v = items.to_vec();
                            v[i] = Item::Group(g2);
                            out.push(v);
                        }
                    }
                    if g.els.is_some() {
                        let mut g2 = g.clone();
                        g2.els = None;
                        let mut v = items.to_vec();
                        v[i] = Item::Group(g2);
                        out.push(v);
                    }
                    for r in red(&g.then) {
                        let mut g2 = g.clone();
                        g2.then = r;
                        let mut v = items.to_vec();
                        v[i] = Item::Group(g2);
                        out.push(v);
                    }
                    for k in 0..g.elifs.len() {
                        for r in red(&g.elifs[k].1) {
                            let mut g2 = g.clone();
                            g2.elifs[k].1 = r;
                            let mut v = items.to_vec();
                            v[i] = Item::Group(g2);
                            out.push(v);
                        }
                    }
                    if let Some(e) = &g.els {
                        for r in red(e) {
                            let mut g2 = g.clone();
                            g2.els = Some(r);
                            let mut v = items.to_vec();
                            v[i] = Item::Group(g2);
                            out.push(v);
                        }
                    }
                }
            }
            out
        }
        let mut out = vec![];
        for r in red(&self.items) {
            out.push(Case { items: r, ..self.clone() });
        }
        for i in 0..self.cmdline.len() {
            let mut c = self.clone();
            c.cmdline.remove(i);
            out.push(c);
        }
        out
    }
}

/// macros that always carry a 0/1 value (usable in #if / #elif expressions)
// (one name is a prefix of another one: the tables of the preprocessor are searched by name)
const MACROS: [&str; 6] = ["FOO", "BAR", "BAZ", "QUX", "FOO_LEVEL", "BAR2"];
/// macros defined without a value: only ever tested with #ifdef / #ifndef (an empty macro in an
/// #if expression is not a truth assignment)
const FLAGS: [&str; 2] = ["ZED", "WIB"];
/// function-like macros: defined names for #ifdef / #ifndef / #undef like the FLAGS
const FNS: [&str; 2] = ["FNA", "FNB"];

/// text of a string-bearing marker: some look like the start of a comment (a string of an
/// unselected region must keep shielding its contents)
fn marker_prefix(k: u32) -> &'static str {
    match (k / 3) % 4 {
        0 => "txt",
        1 => "t/*x",
        2 => "t//x",
        _ => "#if ",
    }
}

struct Gen<'a, 'b> {
    g: &'a mut G<'b>,
    next_marker: u32,
    headers: Vec<u32>,
    /// model of the macro table along the *selected* path, to keep evaluated conditions defined
    table: BTreeMap<String, Option<bool>>,
}

impl<'a, 'b> Gen<'a, 'b> {
    fn cond(&mut self, evaluated: bool, depth: u32) -> Cond {
        // in evaluated position only macros that currently have a 0/1 value may appear
        let valued: Vec<String> = self.table.iter().filter(|(_, v)| v.is_some()).map(|(k, _)| k.clone()).collect();
        match self.g.below(if depth > 0 { 6 } else { 3 }) {
            0 => Cond::Lit(self.g.chance(1, 2)),
            1 | 2 => {
                if evaluated {
                    if valued.is_empty() {
                        Cond::Lit(self.g.chance(1, 2))
                    } else {
                        Cond::Mac(self.g.pick(&valued).clone())
                    }
                } else {
                    Cond::Mac(self.g.pick(&MACROS).to_string())
                }
            }
            3 => Cond::Not(Box::new(self.cond(evaluated, depth - 1))),
            4 => Cond::NotSp(Box::new(self.cond(evaluated, depth - 1))),
            _ => Cond::Eq(Box::new(self.cond(evaluated, depth - 1)), Box::new(self.cond(evaluated, depth - 1))),
        }
    }

    fn eval(&self, c: &Cond) -> bool {
        match c {
            Cond::Lit(b) => *b,
            Cond::Mac(m) => self.table.get(m).cloned().flatten().unwrap_or(false),
            Cond::Not(a) | Cond::NotSp(a) => !self.eval(a),
            Cond::Eq(a, b) => self.eval(a) == self.eval(b),
        }
    }

    /// `live`: is this region on the selected path (model state is only updated there)
    fn items(&mut self, live: bool, depth: u32, n: usize) -> Vec<Item> {
        let mut out = vec![];
        for _ in 0..n {
            let w = [30u32, 14, 6, 3, 5, if depth > 0 { 22 } else { 0 }, 4];
            match self.g.weighted(&w) {
                6 => out.push(Item::Comment(self.g.below(4) as u8)),
                0 => {
                    self.next_marker += 1;
                    out.push(Item::Marker(self.next_marker));
                }
                1 => {
                    let valued = self.g.chance(3, 4);
                    let m = if valued {
                        self.g.pick(&MACROS).to_string()
                    } else if self.g.chance(1, 2) {
                        self.g.pick(&FNS).to_string()
                    } else {
                        self.g.pick(&FLAGS).to_string()
                    };
                    // a redefinition of a defined macro is an error in this preprocessor: only
                    // define what is (on the model's path) undefined; in dead regions anything goes
                    if live && self.table.contains_key(&m) {
                        continue;
                    }
                    let v = if valued { Some(self.g.chance(1, 2)) } else { None };
                    if live {
                        self.table.insert(m.clone(), v);
                    }
                    out.push(Item::Define(m, v));
                }
                2 => {
                    let m = match self.g.below(8) {
                        0..=4 => self.g.pick(&MACROS).to_string(),
                        5 => self.g.pick(&FNS).to_string(),
                        _ => self.g.pick(&FLAGS).to_string(),
                    };
                    if live {
                        self.table.remove(&m);
                    }
                    out.push(Item::Undef(m.clone()));
                    // often defined again at once, with a value of its own
                    if MACROS.contains(&m.as_str()) && self.g.chance(1, 2) {
                        let v = Some(self.g.chance(1, 2));
                        if live {
                            self.table.insert(m.clone(), v);
                        }
                        out.push(Item::Define(m, v));
                    }
                }
                3 => {
                    // errors mostly in dead regions (a live one ends the case early)
                    if !live || self.g.chance(1, 6) {
                        self.next_marker += 1;
                        out.push(Item::Error(self.next_marker));
                    }
                }
                4 => {
                    self.next_marker += 1;
                    self.headers.push(self.next_marker);
                    out.push(Item::Include(self.next_marker));
                }
                _ => {
                    let g = self.group(live, depth - 1);
                    out.push(Item::Group(g));
                }
            }
        }
        out
    }

    fn group(&mut self, live: bool, depth: u32) -> Group {
        let any = |g: &mut G| -> String {
            match g.below(5) {
                0 | 1 => g.pick(&MACROS).to_string(),
                2 => g.pick(&FNS).to_string(),
                _ => g.pick(&FLAGS).to_string(),
            }
        };
        let head = match self.g.below(4) {
            0 => Head::Ifdef(any(self.g)),
            1 => Head::Ifndef(any(self.g)),
            _ => Head::If(self.cond(live, 2)),
        };
        let mut taken = false;
        let head_true = match &head {
            Head::If(c) => self.eval(c),
            Head::Ifdef(m) => self.table.contains_key(m),
            Head::Ifndef(m) => !self.table.contains_key(m),
        };
        let n = self.g.below(4);
        let sel = live && head_true;
        taken |= head_true;
        let then = self.items(sel, depth, n);
        let mut elifs = vec![];
        let ne = self.g.weighted(&[5, 3, 2, 1]);
        for _ in 0..ne {
            // an #elif is evaluated only while no earlier branch was taken
            let evaluated = live && !taken;
            let c = self.cond(evaluated, 2);
            let t = evaluated && self.eval(&c);
            let n = self.g.below(3);
            let body = self.items(t, depth, n);
            if t {
                taken = true;
            }
            elifs.push((c, body));
        }
        let els = if self.g.chance(1, 2) {
            let sel = live && !taken;
            let n = self.g.below(3);
            Some(self.items(sel, depth, n))
        } else {
            None
        };
        Group { head, then, elifs, els }
    }
}

pub fn gen_case(g: &mut G) -> Case {
    let mut table = BTreeMap::new();
    let mut cmdline = vec![];
    let nd = g.below(3);
    for _ in 0..nd {
        let m = g.pick(&MACROS).to_string();
        if table.contains_key(&m) {
            continue;
        }
        let v = if g.chance(2, 3) { Some(g.chance(1, 2)) } else { None };
        // -DNAME defines NAME as 1 (a value, so NAME stays usable in #if)
        table.insert(m.clone(), Some(v.unwrap_or(true)));
        cmdline.push((m, v));
    }
    let mut gen = Gen { g, next_marker: 0, headers: vec![], table };
    let n = 2 + gen.g.below(5);
    let depth = 1 + gen.g.below(5) as u32;
    let items = gen.items(true, depth, n);
    Case { items, cmdline, headers: gen.headers }
}

// ------------------------------------------------------------------ rendering + model

fn cond_text(c: &Cond) -> String {
    match c {
        Cond::Lit(b) => (*b as u8).to_string(),
        Cond::Mac(m) => m.clone(),
        Cond::Not(a) => format!("!{}", cond_text(a)),
        Cond::NotSp(a) => format!("! {}", cond_text(a)),
        Cond::Eq(a, b) => format!("{} == {}", cond_text(a), cond_text(b)),
    }
}

/// the preprocessor's condition grammar has no parentheses: `!` binds to the next term, `==`
/// chains to the left; evaluate the *printed* form with C semantics
fn cond_value(c: &Cond, table: &BTreeMap<String, Option<bool>>) -> Option<bool> {
    // flatten to tokens
    fn toks(c: &Cond, table: &BTreeMap<String, Option<bool>>, out: &mut Vec<Tok>) -> Option<()> {
        match c {
            Cond::Lit(b) => out.push(Tok::Val(*b)),
            Cond::Mac(m) => out.push(Tok::Val((*table.get(m)?)?)),
            Cond::Not(a) | Cond::NotSp(a) => {
                out.push(Tok::Not);
                toks(a, table, out)?;
            }
            Cond::Eq(a, b) => {
                toks(a, table, out)?;
                out.push(Tok::Eq);
                toks(b, table, out)?;
            }
        }
        Some(())
    }
    #[derive(Clone, Copy)]
    enum Tok {
        Val(bool),
        Not,
        Eq,
    }
    let mut t = vec![];
    toks(c, table, &mut t)?;
    // unary := '!'* term ; eq := unary ('==' unary)*   (C: ! binds tighter than ==, == left-assoc)
    let mut i = 0;
    let mut unary = |i: &mut usize| -> bool {
        let mut neg = false;
        while let Tok::Not = t[*i] {
            neg = !neg;
            *i += 1;
        }
        let v = if let Tok::Val(v) = t[*i] { v } else { false };
        *i += 1;
        neg ^ v
    };
    let mut r = unary(&mut i);
    while i < t.len() {
        i += 1; // Eq
        let b = unary(&mut i);
        r = r == b;
    }
    Some(r)
}

pub struct Expect {
    pub markers: BTreeSet<u32>,
    pub error: Option<(u32, u32)>, // (error id, line)
    pub nontrivial: bool,
}

struct Render {
    text: String,
    line: u32,
    table: BTreeMap<String, Option<bool>>,
    markers: BTreeSet<u32>,
    error: Option<(u32, u32)>,
    max_depth: u32,
    elif_after_taken: bool,
    directive_in_dead: bool,
    /// an evaluated condition mentions a macro without a 0/1 value: outside the property's domain
    pub undefined_in_evaluated: bool,
}

impl Render {
    fn emit(&mut self, s: &str) {
        self.text.push_str(s);
        self.text.push('\n');
        self.line += 1;
    }
    fn items(&mut self, items: &[Item], live: bool, depth: u32) {
        self.max_depth = self.max_depth.max(depth);
        for it in items {
            let live_now = live && self.error.is_none();
            match it {
                Item::Marker(k) => {
                    if k % 3 == 0 {
                        // a line with a string literal: its text must stay tied to this line
                        self.emit(&format!("const char m{}[] = \"{}{}\";", k, marker_prefix(*k), k));
                    } else {
                        self.emit(&format!("char m{};", k));
                    }
                    if live_now {
                        self.markers.insert(*k);
                    }
                }
                Item::Define(m, v) => {
                    match v {
                        Some(b) => self.emit(&format!("#define {} {}", m, *b as u8)),
                        None if FNS.contains(&m.as_str()) => self.emit(&format!("#define {}(x) ((x) + 1)", m)),
                        None => self.emit(&format!("#define {}", m)),
                    }
                    if live_now {
                        if self.table.contains_key(m) {
                            // redefinition: this preprocessor reports an error; outside the domain
                            self.undefined_in_evaluated = true;
                        }
                        self.table.insert(m.clone(), *v);
                    } else {
                        self.directive_in_dead = true;
                    }
                }
                Item::Undef(m) => {
                    self.emit(&format!("#undef {}", m));
                    if live_now {
                        self.table.remove(m);
                    } else {
                        self.directive_in_dead = true;
                    }
                }
                Item::Error(k) => {
                    self.emit(&format!("#error stop{}", k));
                    if live_now {
                        self.error = Some((*k, self.line));
                    } else if !live {
                        self.directive_in_dead = true;
                    }
                }
                Item::Comment(v) => {
                    // nothing inside a comment is a directive, in a selected region or not
                    self.emit("char cmt_dummy_decl_placeholder; /* a comment that goes on".replace("cmt_dummy_decl_placeholder", &format!("cmt{}", self.line)).as_str());
                    match v {
                        0 => self.emit("#else"),
                        1 => self.emit("#endif"),
                        2 => {
                            self.emit("#elif 1");
                            self.emit("#define CMT_MACRO 1");
                        }
                        _ => self.emit("#if 0"),
                    }
                    self.emit("   and ends here */");
                }
                Item::Include(k) => {
                    self.emit(&format!("#include \"h{}.h\"", k));
                    if live_now {
                        self.markers.insert(*k);
                    } else if !live {
                        self.directive_in_dead = true;
                    }
                }
                Item::Group(g) => {
                    let mut taken = false;
                    let head_true = match &g.head {
                        Head::If(c) => {
                            self.emit(&format!("#if {}", cond_text(c)));
                            if live_now {
                                match cond_value(c, &self.table) {
                                    Some(v) => v,
                                    None => {
                                        self.undefined_in_evaluated = true;
                                        false
                                    }
                                }
                            } else {
                                false
                            }
                        }
                        Head::Ifdef(m) => {
                            self.emit(&format!("#ifdef {}", m));
                            self.table.contains_key(m)
                        }
                        Head::Ifndef(m) => {
                            self.emit(&format!("#ifndef {}", m));
                            !self.table.contains_key(m)
                        }
                    };
                    let sel = live && head_true;
                    taken |= head_true || !live;
                    self.items(&g.then, sel, depth + 1);
                    for (c, body) in &g.elifs {
                        self.emit(&format!("#elif {}", cond_text(c)));
                        let mut t = false;
                        if live && !taken && self.error.is_none() {
                            match cond_value(c, &self.table) {
                                Some(v) => t = v,
                                None => self.undefined_in_evaluated = true,
                            }
                        } else if live && taken {
                            self.elif_after_taken = true;
                        }
                        self.items(body, live && t, depth + 1);
                        if t {
                            taken = true;
                        }
                    }
                    if let Some(e) = &g.els {
                        self.emit("#else");
                        self.items(e, live && !taken, depth + 1);
                    }
                    self.emit("#endif");
                }
            }
        }
    }
}

pub fn render(case: &Case) -> (String, Expect, bool) {
    let mut table = BTreeMap::new();
    for (m, v) in &case.cmdline {
        table.insert(m.clone(), Some(v.unwrap_or(true)));
    }
    let mut r = Render {
        text: String::new(),
        line: 0,
        table,
        markers: BTreeSet::new(),
        error: None,
        max_depth: 0,
        elif_after_taken: false,
        directive_in_dead: false,
        undefined_in_evaluated: false,
    };
    r.emit("char m0;");
    r.items(&case.items, true, 0);
    r.emit("void main() { }");
    if r.error.is_none() {
        r.markers.insert(0);
    } else {
        r.markers.insert(0);
    }
    let nt = r.max_depth >= 2 || r.elif_after_taken || r.directive_in_dead;
    (r.text, Expect { markers: r.markers, error: r.error, nontrivial: nt }, r.undefined_in_evaluated)
}

pub fn check(case: &Case, st: &mut Stats) -> Result<(), String> {
    st.count("trees");
    let (text, exp, out_of_domain) = render(case);
    if out_of_domain {
        st.count("out_of_domain(undefined macro in an evaluated condition)");
        return Ok(());
    }
    let mut opts = Opts::default();
    let mut _dir = None;
    if !case.headers.is_empty() {
        let dir = tx::TempDir::new("c07");
        for k in &case.headers {
            dir.write(&format!("h{}.h", k), &format!("char m{};\n", k));
        }
        opts.include_dirs.push(dir.path());
        _dir = Some(dir);
    }
    for (m, v) in &case.cmdline {
        opts.defines.push(match v {
            Some(b) => format!("{}={}", m, *b as u8),
            None => m.clone(),
        });
    }
    let out = cc::compile_str(&text, &opts);
    let all_markers: BTreeSet<u32> = {
        fn walk(items: &[Item], s: &mut BTreeSet<u32>) {
            for i in items {
                match i {
                    Item::Marker(k) | Item::Include(k) => {
                        s.insert(*k);
                    }
                    Item::Group(g) => {
                        walk(&g.then, s);
                        for e in &g.elifs {
                            walk(&e.1, s);
                        }
                        if let Some(e) = &g.els {
                            walk(e, s);
                        }
                    }
                    _ => {}
                }
            }
        }
        let mut s = BTreeSet::new();
        s.insert(0);
        walk(&case.items, &mut s);
        s
    };
    match (&exp.error, &out) {
        (Some((k, line)), Outcome::Err(CcError::Compiler { msg, line: l, filename, .. })) => {
            if msg.trim() != format!("stop{}", k) {
                return Err(format!("C07-error: expected '#error stop{}' to fire, got error '{}'", k, msg));
            }
            if *l != *line || filename != "main.c" {
                return Err(format!("C07-error-location: '#error stop{}' is on line {} of main.c, reported {}:{}", k, line, filename, l));
            }
            st.count("live_error");
        }
        (Some((k, _)), other) => {
            return Err(format!("C07-error: '#error stop{}' lies in a selected region but the result is {}", k, tx::brief(other)))
        }
        (None, Outcome::Ok(cap)) => {
            let present: BTreeSet<u32> = cap
                .vars
                .iter()
                .filter_map(|v| v.name.strip_prefix('m').and_then(|n| n.parse::<u32>().ok()))
                .filter(|k| all_markers.contains(k))
                .collect();
            for v in &cap.vars {
                if let Some(k) = v.name.strip_prefix('m').and_then(|n| n.parse::<u32>().ok()) {
                    if k % 3 == 0 && k > 0 && all_markers.contains(&k) && !case.headers.contains(&k) {
                        let want: Vec<u8> = format!("{}{}\0", marker_prefix(k), k).into_bytes();
                        let got: Vec<u8> = match &v.def {
                            cc::Def::Array(a) => a.iter().filter_map(|x| if let cc::Val::Int(i) = x { Some(*i as u8) } else { None }).collect(),
                            _ => vec![],
                        };
                        if got != want {
                            return Err(format!(
                                "C07-text: the line `const char m{}[] = \"{}{}\";` of a selected region reached the compiler with other text: bytes {:?}",
                                k,
                                marker_prefix(k),
                                k,
                                String::from_utf8_lossy(&got)
                            ));
                        }
                        st.count("string_markers_checked");
                    }
                }
            }
            if present != exp.markers {
                let missing: Vec<_> = exp.markers.difference(&present).collect();
                let extra: Vec<_> = present.difference(&exp.markers).collect();
                return Err(format!(
                    "C07-markers: lines of selected regions missing {:?}; lines of unselected regions present {:?}",
                    missing, extra
                ));
            }
        }
        (None, other) => {
            return Err(format!("C07-result: no selected #error, expected success, got {}", tx::brief(other)));
        }
    }
    if exp.nontrivial {
        st.nontrivial(pbt::hash_str(&format!("{}|{:?}", text, case.cmdline)));
        st.sample(2, || json!({"source": text, "defines": opts.defines, "expected_markers": exp.markers, "expected_error": exp.error}));
    }
    Ok(())
}

pub fn run(ctx: &mut RunCtx) -> i32 {
    let cases = ctx.cases(20_000, 600_000);
    let (_excl, known_seen) = super::activate_exclusions(ctx, "C07");
    let (stats, failures, aborted) = pbt::run_sharded(
        ctx.seed,
        "C07",
        ctx.shards,
        cases,
        4000,
        |_| pbt::strategy(gen_case),
        |case: &Case, st: &mut Stats| check(case, st),
    );
    let mut violations = super::take_regressions();
    for f in failures {
        let class = f.reason.split(':').next().unwrap_or("").to_string();
        let (text, _, _) = render(&f.minimal);
        violations.push(Violation {
            class,
            detail: f.reason.clone(),
            replay: json!({"property": "C07", "kind": "c07", "reason": f.reason, "source": text, "case": f.minimal}),
        });
    }
    let s = Summary {
        stats,
        rule: "random well-nested trees of #if/#ifdef/#ifndef/#elif/#else/#endif (depth <= 5) over literal 0/1, macros defined \
               in the source or by -D, ! and ==, with a marker declaration, #define/#undef, #error and #include in every kind \
               of region; expected marker set / first live #error computed by the constructive model; non-trivial = depth >= 2 \
               or an #elif after a taken branch or a directive in a skipped region; distinct by hash of (text, -D options)"
            .into(),
        assumptions: vec!["the model evaluates only the documented condition language (0/1 literals, defined macros, !, ==)".into()],
        extra: json!({}),
        violations,
        known_seen,
        inconclusive: aborted,
    };
    report::finish(ctx, s)
}

pub fn replay_case(v: &serde_json::Value) -> Option<(bool, String)> {
    let case: Case = serde_json::from_value(v["case"].clone()).ok()?;
    let mut st = Stats::default();
    match check(&case, &mut st) {
        Ok(()) => Some((false, format!("{:?}", st.counters))),
        Err(r) => Some((true, r)),
    }
}
