//! C05 — output is a deterministic function of source and options.
use crate::cc::{self, Opts, Outcome};
use crate::pbt::{self, Reducible, Stats, G};
use crate::report::{self, RunCtx, Summary, Violation};
use serde::{Deserialize, Serialize};
use serde_json::json;
use std::io::Write;
use std::process::{Command, Stdio};

#[derive(Debug, Clone, Serialize, Deserialize, PartialEq)]
pub enum FnBody {
    /// call `callee` with n string literal arguments
    LiteralCall { callee: usize, lits: Vec<String> },
    Assign(usize, u8),
    SiblingLocals,
    Call(usize),
    PtrAssign(String),
    /// a diagnostic-producing statement (constant that does not fit)
    Warn,
    /// several literals in the initialiser of a local pointer: `char *lp = v0 ? "a" : "b";`
    LocalInit(Vec<String>),
    /// several literals in one assignment: `gp = v0 ? "a" : "b";`
    TernaryAssign(Vec<String>),
    /// use of function-like macro number .0 of the case: `v<d> = NAME(v<x>, v<y>);`
    MacroUse(usize, usize, usize, usize),
    /// the same literal text several times in one expression, once inside a nested call:
    /// `l3("w", lw("w"), "w");`
    SameThrice(String),
}

#[derive(Debug, Clone, Serialize, Deserialize, PartialEq)]
pub struct Fun {
    pub name: String,
    pub nparams: usize,
    pub proto: bool,
    pub interrupt: bool,
    pub body: Vec<FnBody>,
}

#[derive(Debug, Clone, Serialize, Deserialize)]
pub struct Case {
    pub nvars: usize,
    pub tables: Vec<Vec<String>>,
    pub funs: Vec<Fun>,
    /// order in which function definitions appear
    pub order: Vec<usize>,
    /// plant a defect (diagnostics must be deterministic too)
    pub broken: bool,
    pub opt: u8,
    /// function-like macros (name, variant): 0 = (pa, pb), 1 = (pb, pa), 2 = (pa, pb, pc); a sibling
    /// program that defines the same names with other parameter lists is compiled first
    #[serde(default)]
    pub macros: Vec<(String, u8)>,
    /// a table of literal pointers declared after the functions, made of literals that the functions have
    /// already used (several identical literals exist by then)
    #[serde(default)]
    pub late_table: bool,
}

impl Reducible for Case {
    fn reductions(&self) -> Vec<Case> {
        let mut out = vec![];
        for i in 0..self.tables.len() {
            let mut c = self.clone();
            c.tables.remove(i);
            out.push(c);
        }
        for i in 0..self.funs.len() {
            for j in 0..self.funs[i].body.len() {
                let mut c = self.clone();
                c.funs[i].body.remove(j);
                out.push(c);
            }
            if self.funs[i].proto {
                let mut c = self.clone();
                c.funs[i].proto = false;
                out.push(c);
            }
        }
        if self.nvars > 1 {
            out.push(Case { nvars: self.nvars / 2, ..self.clone() });
        }
        // drop the last function if nothing refers to it
        if self.funs.len() > 1 {
            let last = self.funs.len() - 1;
            let used = self.funs.iter().any(|f| {
                f.body.iter().any(|b| matches!(b, FnBody::Call(k) | FnBody::LiteralCall { callee: k, .. } if *k == last))
            });
            if !used {
                let mut c = self.clone();
                c.funs.pop();
                c.order.retain(|k| *k != last);
                out.push(c);
            }
        }
        out
    }
}

const MACRO_NAMES: [&str; 3] = ["SUB", "MIX", "PICK"];

const WORDS: [&str; 10] = ["one", "two", "three", "four", "five", "six", "seven", "eight", "nine", "ten"];

pub fn gen_case(g: &mut G) -> Case {
    let nvars = 10 + g.below(31);
    let nt = g.below(3);
    let tables = (0..nt).map(|_| (0..2 + g.below(4)).map(|_| WORDS[g.below(10)].to_string()).collect()).collect();
    let nf = 3 + g.below(10);
    let nm = g.weighted(&[2, 2, 1, 1]);
    let mut macros: Vec<(String, u8)> = vec![];
    for k in 0..nm {
        macros.push((MACRO_NAMES[k].to_string(), g.below(3) as u8));
    }
    let mut funs: Vec<Fun> = vec![];
    for i in 0..nf {
        let nparams = g.below(4);
        let mut body = vec![];
        let nb = 1 + g.below(4);
        for _ in 0..nb {
            body.push(match g.below(10) {
                5 | 7 if g.chance(1, 3) => FnBody::SameThrice(WORDS[g.below(10)].to_string()),
                0..=2 if i > 0 => {
                    // a callee taking pointers: any earlier function with >= 2 params, else a plain call
                    let cands: Vec<usize> = (0..i).filter(|k| funs[*k].nparams >= 2 && !funs[*k].interrupt).collect();
                    if cands.is_empty() {
                        FnBody::Assign(g.below(nvars), g.u32() as u8)
                    } else {
                        let callee = cands[g.below(cands.len())];
                        let n = funs[callee].nparams;
                        FnBody::LiteralCall { callee, lits: (0..n).map(|_| WORDS[g.below(10)].to_string()).collect() }
                    }
                }
                3 | 4 => FnBody::Assign(g.below(nvars), g.u32() as u8),
                5 => FnBody::SiblingLocals,
                6 if i > 0 => {
                    let cands: Vec<usize> = (0..i).filter(|k| funs[*k].nparams == 0 && !funs[*k].interrupt).collect();
                    if cands.is_empty() {
                        FnBody::SiblingLocals
                    } else {
                        FnBody::Call(cands[g.below(cands.len())])
                    }
                }
                7 => FnBody::PtrAssign(WORDS[g.below(10)].to_string()),
                8 if g.chance(1, 3) => FnBody::Warn,
                3 | 4 | 9 if !macros.is_empty() && g.chance(1, 2) => FnBody::MacroUse(g.below(macros.len()), g.below(nvars), g.below(nvars), g.below(nvars)),
                8 | 9 if g.chance(1, 2) => {
                    let lits: Vec<String> = (0..2 + g.below(2)).map(|_| WORDS[g.below(10)].to_string()).collect();
                    if g.chance(1, 2) {
                        FnBody::LocalInit(lits)
                    } else {
                        FnBody::TernaryAssign(lits)
                    }
                }
                _ => FnBody::Assign(g.below(nvars), g.u32() as u8),
            });
        }
        let interrupt = nparams == 0 && g.chance(1, 8);
        funs.push(Fun { name: format!("fn{}", i), nparams, proto: g.chance(1, 2), interrupt, body });
    }
    // definition order: callees must be defined or prototyped before use; prototyped functions
    // may be defined anywhere later
    let mut order: Vec<usize> = (0..nf).collect();
    // move some prototyped functions towards the end
    for i in 0..nf {
        if funs[i].proto && g.chance(1, 2) {
            let pos = order.iter().position(|k| *k == i).unwrap();
            let k = order.remove(pos);
            let newpos = pos + g.below(order.len() - pos + 1);
            order.insert(newpos, k);
        }
    }
    Case { nvars, tables, funs, order, broken: g.chance(1, 10), opt: g.below(2) as u8, macros, late_table: g.chance(1, 2) }
}

pub fn source(c: &Case) -> String {
    source_shifted(c, 0)
}

/// the program with every macro's parameter list taken `shift` variants further (0 = the case itself)
pub fn source_shifted(c: &Case, shift: u8) -> String {
    let mut s = String::new();
    let variant = |k: usize| (c.macros[k].1 + shift) % 3;
    for (k, (name, _)) in c.macros.iter().enumerate() {
        match variant(k) {
            0 => s.push_str(&format!("#define {}(pa, pb) ((pa) - (pb))\n", name)),
            1 => s.push_str(&format!("#define {}(pb, pa) ((pa) - (pb))\n", name)),
            _ => s.push_str(&format!("#define {}(pa, pb, pc) ((pa) - (pb) + (pc))\n", name)),
        }
    }
    for i in 0..c.nvars {
        if i % 7 == 3 {
            s.push_str(&format!("short v{};\n", i));
        } else if i % 11 == 5 {
            s.push_str(&format!("char v{}[{}];\n", i, 2 + i % 5));
        } else {
            s.push_str(&format!("char v{};\n", i));
        }
    }
    s.push_str("char *gp;\n");
    if c.funs.iter().any(|f| f.body.iter().any(|b| matches!(b, FnBody::SameThrice(_)))) {
        s.push_str("char lw(char *q) { return 0; }\nvoid l3(char *a, char c, char *b) { gp = a; gp = b; }\n");
    }
    for (i, t) in c.tables.iter().enumerate() {
        let l: Vec<String> = t.iter().map(|w| format!("\"{}\"", w)).collect();
        s.push_str(&format!("const char *tab{}[] = {{{}}};\n", i, l.join(", ")));
    }
    let header = |f: &Fun| -> String {
        let ps: Vec<String> = (0..f.nparams).map(|k| format!("char *q{}", k)).collect();
        format!("void {}{}({})", if f.interrupt { "interrupt " } else { "" }, f.name, ps.join(", "))
    };
    for f in &c.funs {
        if f.proto {
            s.push_str(&format!("{};\n", header(f)));
        }
    }
    for k in &c.order {
        let f = &c.funs[*k];
        s.push_str(&format!("{}\n{{\n", header(f)));
        for b in &f.body {
            match b {
                FnBody::LiteralCall { callee, lits } => {
                    let l: Vec<String> = lits.iter().map(|w| format!("\"{}\"", w)).collect();
                    s.push_str(&format!("  {}({});\n", c.funs[*callee].name, l.join(", ")));
                }
                FnBody::Assign(v, k) => {
                    let v = v % c.nvars;
                    if v % 11 == 5 && v % 7 != 3 {
                        s.push_str(&format!("  v{}[1] = {};\n", v, k));
                    } else {
                        s.push_str(&format!("  v{} = {};\n", v, k));
                    }
                }
                FnBody::SiblingLocals => s.push_str("  { char t; t = 1; v0 = t; }\n  { char t; t = 2; v1 = t; }\n"),
                FnBody::Call(k) => s.push_str(&format!("  {}();\n", c.funs[*k].name)),
                FnBody::PtrAssign(w) => s.push_str(&format!("  gp = \"{}\";\n", w)),
                FnBody::Warn => s.push_str("  X = 300;\n"),
                FnBody::SameThrice(w) => s.push_str(&format!("  l3(\"{}\", lw(\"{}\"), \"{}\");\n", w, w, w)),
                FnBody::MacroUse(k, d, x, y) => {
                    let scalar = |v: usize| {
                        let v = v % c.nvars;
                        if v % 7 == 3 || v % 11 == 5 {
                            0
                        } else {
                            v
                        }
                    };
                    if *k < c.macros.len() {
                        let extra = if variant(*k) == 2 { ", 1" } else { "" };
                        s.push_str(&format!("  v{} = {}(v{}, v{}{});\n", scalar(*d), c.macros[*k].0, scalar(*x), scalar(*y), extra));
                    }
                }
                FnBody::LocalInit(l) | FnBody::TernaryAssign(l) => {
                    let e = if l.len() >= 3 {
                        format!("v0 ? \"{}\" : (v1 ? \"{}\" : \"{}\")", l[0], l[1], l[2])
                    } else {
                        format!("v0 ? \"{}\" : \"{}\"", l[0], l[1])
                    };
                    if matches!(b, FnBody::LocalInit(_)) {
                        s.push_str(&format!("  {{ char *lp = {}; gp = lp; }}\n", e));
                    } else {
                        s.push_str(&format!("  gp = {};\n", e));
                    }
                }
            }
        }
        s.push_str("}\n");
    }
    let mut late = false;
    if c.late_table {
        // the literals of the function bodies, most frequent first
        let mut words: Vec<String> = vec![];
        for f in &c.funs {
            for b in &f.body {
                match b {
                    FnBody::LiteralCall { lits, .. } => words.extend(lits.iter().cloned()),
                    FnBody::PtrAssign(w) => words.push(w.clone()),
                    FnBody::SameThrice(w) => words.extend([w.clone(), w.clone(), w.clone()]),
                    FnBody::LocalInit(l) | FnBody::TernaryAssign(l) => words.extend(l.iter().cloned()),
                    _ => {}
                }
            }
        }
        let mut uniq: Vec<String> = vec![];
        for w in &words {
            if !uniq.contains(w) {
                uniq.push(w.clone());
            }
        }
        uniq.sort_by_key(|w| std::cmp::Reverse(words.iter().filter(|x| *x == w).count()));
        if uniq.len() >= 2 {
            s.push_str(&format!("const char *late[] = {{\"{}\", \"{}\", \"{}\"}};\n", uniq[1], uniq[0], uniq[0]));
            late = true;
        }
    }
    s.push_str("void main()\n{\n");
    if late {
        s.push_str("  gp = late[1];\n");
    }
    for f in &c.funs {
        if f.nparams == 0 && !f.interrupt {
            s.push_str(&format!("  {}();\n", f.name));
        }
    }
    if c.broken {
        s.push_str("  nosuchvariable = 1;\n");
    }
    s.push_str("}\n");
    s
}

/// a call may only name a function already defined or prototyped at that point
fn well_formed(c: &Case) -> bool {
    let mut seen: Vec<bool> = c.funs.iter().map(|f| f.proto).collect();
    for k in &c.order {
        for b in &c.funs[*k].body {
            match b {
                FnBody::Call(x) | FnBody::LiteralCall { callee: x, .. } => {
                    if !seen[*x] {
                        return false;
                    }
                }
                _ => {}
            }
        }
        seen[*k] = true;
    }
    true
}

pub fn dump(o: &Outcome) -> String {
    match o {
        Outcome::Ok(c) => {
            let mut s = String::new();
            for v in &c.vars {
                s.push_str(&format!("VAR {} {}\n", v.name, v.debug));
            }
            for f in &c.funcs {
                s.push_str(&format!("FUN {} {} size={}\n{}", f.name, f.debug, f.size_bytes, f.asm));
            }
            s.push_str(&format!("TREE {:?}\nINUSE {:?}\n", c.call_tree, c.in_use));
            s.push_str("OUTPUT\n");
            s.push_str(&c.output);
            s
        }
        Outcome::Err(e) => format!("ERR {:?}\n", e),
        Outcome::Panic(p) => format!("PANIC {}\n", p.sig),
    }
}

pub fn worker_main(path: &str, opt: u8) -> i32 {
    // fresh process = fresh RandomState seeds; stdout (warnings + dump) is the observation
    let src = std::fs::read_to_string(path).unwrap_or_default();
    let o = cc::compile_str(&src, &Opts::o(opt));
    print!("{}", dump(&o));
    let _ = std::io::stdout().flush();
    0
}

fn run_worker(src: &str, opt: u8) -> Option<String> {
    let exe = std::env::current_exe().ok()?;
    let dir = crate::tx::TempDir::new("c05");
    dir.write("main.c", src);
    let path = format!("{}/main.c", dir.path());
    let out = Command::new(exe)
        .arg("worker-c05")
        .arg(&path)
        .arg(opt.to_string())
        .stdin(Stdio::null())
        .stderr(Stdio::null())
        .output()
        .ok()?;
    Some(String::from_utf8_lossy(&out.stdout).to_string())
}

thread_local! {
    /// programs seen earlier by this shard: compiled in between to vary the compilation history
    static HISTORY: std::cell::RefCell<Vec<String>> = std::cell::RefCell::new(vec![]);
}

pub fn check(case: &Case, st: &mut Stats, in_process: usize, processes: usize) -> Result<(), String> {
    st.count("programs");
    if !well_formed(case) {
        st.count("ill_formed_after_shrink");
        return Ok(());
    }
    let src = source(case);
    let opts = Opts::o(case.opt);
    if !case.macros.is_empty() {
        // what an earlier compilation in this process knew about a macro of the same name must not
        // leak into this one
        let _ = cc::compile_str(&source_shifted(case, 1), &opts);
        let _ = cc::compile_str(&source_shifted(case, 2), &opts);
        st.count("label:sibling-with-other-macro-parameter-lists-compiled-first");
    }
    let first = dump(&cc::compile_str(&src, &opts));
    if first.starts_with("ERR") {
        st.count("diagnostics_case");
    }
    if first.starts_with("PANIC") {
        st.count("panic(routed to C16)");
        return Ok(());
    }
    // (a0) the same source under another input name: the result may only differ by that name (nothing
    // of an earlier compilation of this process, its input name included, may show in a later one)
    {
        let renamed = Opts { filename: "second_name.c".to_string(), ..opts.clone() };
        let again = dump(&cc::compile_str(&src, &renamed));
        let expected = first.replace("main.c", "second_name.c");
        if again != expected {
            return Err(format!(
                "C05-same-process: the same source compiled under another input name differs by more than the name: {}",
                first_diff(&expected, &again)
            ));
        }
    }
    // (a) same process, interleaved with other programs
    let others: Vec<String> = HISTORY.with(|h| h.borrow().clone());
    for i in 0..in_process {
        if let Some(o) = others.get(i % others.len().max(1)) {
            let _ = cc::compile_str(o, &opts);
        }
        let again = dump(&cc::compile_str(&src, &opts));
        if again != first {
            return Err(format!(
                "C05-same-process: compilation #{} of the same source in one process differs: {}",
                i + 2,
                first_diff(&first, &again)
            ));
        }
    }
    HISTORY.with(|h| {
        let mut h = h.borrow_mut();
        if h.len() < 6 {
            h.push(src.clone());
        } else {
            let k = (st.evaluations as usize) % 6;
            h[k] = src.clone();
        }
    });
    // (b) fresh processes
    let mut outs = vec![];
    for _ in 0..processes {
        match run_worker(&src, case.opt) {
            Some(o) => outs.push(o),
            None => {
                st.count("worker_failed");
                return Ok(());
            }
        }
    }
    for (i, o) in outs.iter().enumerate().skip(1) {
        if *o != outs[0] {
            return Err(format!("C05-fresh-process: process #{} printed a different result: {}", i + 1, first_diff(&outs[0], o)));
        }
    }
    // the dump part of the worker output must agree with the in-process one as well
    if let Some(o) = outs.first() {
        if !o.ends_with(&first) {
            return Err(format!("C05-fresh-process: a fresh process disagrees with this process: {}", first_diff(&first, o)));
        }
    }
    let lit_expr = case.funs.iter().any(|f| f.body.iter().any(|b| matches!(b, FnBody::LiteralCall { lits, .. } if lits.len() >= 2) || matches!(b, FnBody::LocalInit(_) | FnBody::TernaryAssign(_) | FnBody::SameThrice(_))));
    if case.funs.iter().any(|f| f.body.iter().any(|b| matches!(b, FnBody::LocalInit(_)))) {
        st.count("label:several-literals-in-a-local-initialiser");
    }
    let later = case.funs.iter().any(|f| f.proto);
    if lit_expr || later || !case.tables.is_empty() {
        st.nontrivial(pbt::hash_str(&src));
        st.sample(2, || json!({"source": src, "opt": case.opt}));
    }
    if lit_expr {
        st.count("label:several-literals-in-one-expression");
    }
    if later {
        st.count("label:prototype-defined-later");
    }
    Ok(())
}

fn first_diff(a: &str, b: &str) -> String {
    let mut la = a.lines();
    let mut lb = b.lines();
    let mut n = 0;
    loop {
        n += 1;
        match (la.next(), lb.next()) {
            (Some(x), Some(y)) if x == y => continue,
            (x, y) => return format!("line {}: `{}` vs `{}`", n, x.unwrap_or("<end>").trim(), y.unwrap_or("<end>").trim()),
        }
    }
}

pub fn run(ctx: &mut RunCtx) -> i32 {
    let cases = ctx.cases(2_000, 40_000);
    let (inp, procs) = ctx.tier.pick((6, 4), (10, 6));
    let (_excl, known_seen) = super::activate_exclusions(ctx, "C05");
    let (stats, failures, aborted) = pbt::run_sharded(
        ctx.seed,
        "C05",
        ctx.shards,
        cases,
        600,
        |_| pbt::strategy(gen_case),
        |case: &Case, st: &mut Stats| check(case, st, inp, procs),
    );
    let mut violations = super::take_regressions();
    for f in failures {
        let class = f.reason.split(':').next().unwrap_or("").to_string();
        violations.push(Violation {
            class,
            detail: f.reason.clone(),
            replay: json!({"property": "C05", "kind": "c05", "reason": f.reason, "source": source(&f.minimal), "case": f.minimal}),
        });
    }
    let s = Summary {
        stats,
        rule: "programs rich in what feeds hash maps (2-4 string literals in one call, pointer tables of literals, 10-40 variables, \
               3-12 functions with prototypes defined later in shuffled order, interrupt handlers, equal local names in sibling \
               blocks, a warning-producing statement, 10 % with a planted defect for diagnostics); every program is compiled 1+6 \
               times in one process interleaved with other programs and in 4 fresh processes (fresh hash seeds); all canonical \
               dumps (output text, variables, functions, per-function code, call tree, in-use set, stdout) must be byte-identical; \
               non-trivial = >= 2 literals in one expression, or a prototype, or a pointer table; distinct by hash of source"
            .into(),
        assumptions: vec!["a handful of processes samples the hash seeds; a dependence that shows with probability p per run is missed with (1-p)^runs".into()],
        extra: json!({}),
        violations,
        known_seen,
        inconclusive: aborted,
    };
    report::finish(ctx, s)
}

pub fn replay_case(v: &serde_json::Value) -> Option<(bool, String)> {
    let case: Case = serde_json::from_value(v["case"].clone()).ok()?;
    let mut st = Stats::default();
    // more repetitions than in the campaign: a replay must not pass by luck
    for _ in 0..4 {
        if let Err(r) = check(&case, &mut st, 10, 8) {
            return Some((true, r));
        }
    }
    Some((false, format!("{:?}", st.counters)))
}
