//! The peephole optimizer driven directly through `AssemblyCode`'s public API: random
//! straight-line / forward-branching instruction lists in the idiom of the code generator
//! (a branch directly follows the instruction that sets its flags; ADC after CLC, SBC after SEC),
//! some instructions marked `protected`. Two oracles, used by C02 and by C18:
//!  (equiv)     the optimized list, assembled and executed from the same state, leaves every
//!              memory byte, X and Y equal to those of the unoptimized list;
//!  (protected) every protected instruction is still there, in order.
use crate::asm6502::{self, Item, Source};
use crate::emu6502::{Cpu, Stop, HALT};
use crate::pbt::{Reducible, Stats, G};
use cc6502::assemble::{AsmInstruction, AsmMnemonic, AssemblyCode};
use serde::{Deserialize, Serialize};
use std::collections::HashMap;

#[derive(Debug, Clone, Copy, PartialEq, Serialize, Deserialize)]
pub enum Op {
    None,
    Imm(u8),
    /// zero-page variable v0..v3
    Zp(u8),
    /// absolute variable w0..w1
    Abs(u8),
    /// the other spelling of w0..w1 (`w0b` is the same address as `w0`): one location, two texts
    AbsAlias(u8),
    /// t,X  /  t,Y  (t is a 256-byte table: every index value stays inside it)
    TabX,
    TabY,
    /// constant-index element of the table
    TabK(u8),
    Lab(u8),
}

#[derive(Debug, Clone, Copy, PartialEq, Serialize, Deserialize)]
pub enum RawLine {
    /// (mnemonic code, operand, protected)
    I(u8, Op, bool),
    Label(u8),
    Comment,
    /// inline assembler line `inc v<k>` (the optimizer cannot know what it does)
    Inline(u8),
}

#[derive(Debug, Clone, Serialize, Deserialize)]
pub struct RawCase {
    pub lines: Vec<RawLine>,
    pub mem: Vec<u8>,
    pub a: u8,
    pub x: u8,
    pub y: u8,
    pub p: u8,
}

impl Reducible for RawCase {
    fn reductions(&self) -> Vec<RawCase> {
        let mut out = vec![];
        let n = self.lines.len();
        if n > 6 {
            out.push(RawCase { lines: self.lines[..n / 2].to_vec(), ..self.clone() });
            out.push(RawCase { lines: self.lines[n / 2..].to_vec(), ..self.clone() });
        }
        for i in 0..n {
            // a label that is still the target of a branch must stay
            if let RawLine::Label(l) = self.lines[i] {
                if self.lines.iter().any(|x| matches!(x, RawLine::I(_, Op::Lab(t), _) if *t == l)) {
                    continue;
                }
            }
            let mut c = self.clone();
            c.lines.remove(i);
            out.push(c);
        }
        for i in 0..n {
            if let RawLine::I(m, o, true) = self.lines[i] {
                let mut c = self.clone();
                c.lines[i] = RawLine::I(m, o, false);
                out.push(c);
            }
        }
        out
    }
}

const M: [AsmMnemonic; 36] = [
    AsmMnemonic::LDA,
    AsmMnemonic::LDX,
    AsmMnemonic::LDY,
    AsmMnemonic::STA,
    AsmMnemonic::STX,
    AsmMnemonic::STY,
    AsmMnemonic::TAX,
    AsmMnemonic::TAY,
    AsmMnemonic::TXA,
    AsmMnemonic::TYA,
    AsmMnemonic::ADC,
    AsmMnemonic::SBC,
    AsmMnemonic::EOR,
    AsmMnemonic::AND,
    AsmMnemonic::ORA,
    AsmMnemonic::LSR,
    AsmMnemonic::ASL,
    AsmMnemonic::ROL,
    AsmMnemonic::ROR,
    AsmMnemonic::CLC,
    AsmMnemonic::SEC,
    AsmMnemonic::CMP,
    AsmMnemonic::CPX,
    AsmMnemonic::CPY,
    AsmMnemonic::BCC,
    AsmMnemonic::BCS,
    AsmMnemonic::BEQ,
    AsmMnemonic::BMI,
    AsmMnemonic::BNE,
    AsmMnemonic::BPL,
    AsmMnemonic::INC,
    AsmMnemonic::INX,
    AsmMnemonic::INY,
    AsmMnemonic::DEC,
    AsmMnemonic::DEX,
    AsmMnemonic::DEY,
];
const NAMES: [&str; 36] = [
    "LDA", "LDX", "LDY", "STA", "STX", "STY", "TAX", "TAY", "TXA", "TYA", "ADC", "SBC", "EOR", "AND", "ORA", "LSR", "ASL", "ROL", "ROR", "CLC",
    "SEC", "CMP", "CPX", "CPY", "BCC", "BCS", "BEQ", "BMI", "BNE", "BPL", "INC", "INX", "INY", "DEC", "DEX", "DEY",
];
fn code(name: &str) -> u8 {
    NAMES.iter().position(|n| *n == name).unwrap() as u8
}
const JMP: u8 = 200;
const NOP: u8 = 201;
const PHA: u8 = 202;
const PLA: u8 = 203;

fn mnemonic(c: u8) -> AsmMnemonic {
    match c {
        JMP => AsmMnemonic::JMP,
        NOP => AsmMnemonic::NOP,
        PHA => AsmMnemonic::PHA,
        PLA => AsmMnemonic::PLA,
        k => M[k as usize % 36],
    }
}

pub fn operand_text(o: Op) -> String {
    match o {
        Op::None => String::new(),
        Op::Imm(v) => format!("#{}", v),
        Op::Zp(k) => format!("v{}", k % 4),
        Op::Abs(k) => format!("w{}", k % 2),
        Op::AbsAlias(k) => format!("w{}b", k % 2),
        Op::TabX => "t,X".to_string(),
        Op::TabY => "t,Y".to_string(),
        Op::TabK(k) => format!("t+{}", k % 4),
        Op::Lab(l) => format!(".r{}", l),
    }
}

fn symbols() -> HashMap<String, i64> {
    let mut g = HashMap::new();
    for k in 0..4 {
        g.insert(format!("v{}", k), 0x10 + k as i64);
    }
    for k in 0..2 {
        g.insert(format!("w{}", k), 0x0200 + k as i64);
        g.insert(format!("w{}b", k), 0x0200 + k as i64);
    }
    g.insert("t".to_string(), 0x0300);
    g
}

pub fn build(case: &RawCase) -> AssemblyCode {
    let mut c = AssemblyCode::new();
    for l in &case.lines {
        match l {
            RawLine::I(m, o, p) => c.append_asm(AsmInstruction {
                mnemonic: mnemonic(*m),
                dasm_operand: operand_text(*o),
                cycles: 2,
                cycles_alt: None,
                nb_bytes: 2,
                protected: *p,
            }),
            RawLine::Label(k) => c.append_label(format!(".r{}", k)),
            RawLine::Comment => c.append_comment("a comment line".to_string()),
            RawLine::Inline(k) => c.append_inline(format!("inc v{}", k % 4), Some(2)),
        }
    }
    c
}

fn text_of(c: &AssemblyCode) -> String {
    let mut t: Vec<u8> = vec![];
    let _ = c.write(&mut t, false);
    String::from_utf8_lossy(&t).to_string()
}

// ------------------------------------------------------------------ generation

fn mem_operand(g: &mut G) -> Op {
    match g.below(10) {
        0..=3 => Op::Zp(g.below(4) as u8),
        4 | 5 => Op::Abs(g.below(2) as u8),
        6 => Op::AbsAlias(g.below(2) as u8),
        7 => Op::TabX,
        8 => Op::TabY,
        _ => Op::TabK(g.below(4) as u8),
    }
}

fn imm(g: &mut G) -> Op {
    Op::Imm(*g.pick(&[0u8, 0, 1, 1, 2, 8, 127, 128, 255]))
}

pub fn gen_case(g: &mut G) -> RawCase {
    let mut lines = vec![];
    let n = 4 + g.below(28);
    let mut next_label = 0u8;
    let mut pending: Vec<(u8, usize)> = vec![]; // (label, lines still to emit before it is placed)
    let prot = |g: &mut G| g.chance(1, 6);
    while lines.len() < n || !pending.is_empty() {
        // place due labels
        let mut k = 0;
        while k < pending.len() {
            if pending[k].1 == 0 || lines.len() >= n + 6 {
                lines.push(RawLine::Label(pending[k].0));
                pending.remove(k);
            } else {
                pending[k].1 -= 1;
                k += 1;
            }
        }
        if lines.len() >= n && pending.is_empty() {
            break;
        }
        let p = prot(g);
        if g.chance(1, 12) {
            // the idiom of `v = k; X = w; load(k); store(r); ...`: a protected load of what the
            // accumulator already holds, flags describing something else, a store, another load
            let o = if g.chance(1, 2) { imm(g) } else { Op::Zp(g.below(4) as u8) };
            lines.push(RawLine::I(code("LDA"), o, false));
            lines.push(RawLine::I(code("STA"), Op::Abs(g.below(2) as u8), false));
            match g.below(3) {
                0 => lines.push(RawLine::I(code("LDX"), Op::Zp(g.below(4) as u8), false)),
                1 => lines.push(RawLine::I(code("LDY"), Op::Zp(g.below(4) as u8), false)),
                _ => lines.push(RawLine::I(code("INX"), Op::None, false)),
            }
            lines.push(RawLine::I(code("LDA"), o, true));
            lines.push(RawLine::I(code("STA"), Op::TabK(g.below(4) as u8), g.chance(1, 2)));
            if g.chance(1, 3) {
                lines.push(RawLine::Comment);
            }
            lines.push(RawLine::I(code(*g.pick(&["LDA", "LDX", "LDY"])), Op::Zp(g.below(4) as u8), false));
            continue;
        }
        match g.below(30) {
            0..=3 => lines.push(RawLine::I(code("LDA"), if g.chance(1, 3) { imm(g) } else { mem_operand(g) }, p)),
            4 | 5 => {
                // LDX: no t,X operand
                let mut o = if g.chance(1, 3) { imm(g) } else { mem_operand(g) };
                if o == Op::TabX {
                    o = Op::TabY;
                }
                lines.push(RawLine::I(code("LDX"), o, p));
            }
            6 | 7 => {
                let mut o = if g.chance(1, 3) { imm(g) } else { mem_operand(g) };
                if o == Op::TabY {
                    o = Op::TabX;
                }
                lines.push(RawLine::I(code("LDY"), o, p));
            }
            8..=11 => lines.push(RawLine::I(code("STA"), mem_operand(g), p)),
            12 => {
                // STX: zero page, absolute or constant-index
                let o = match g.below(4) {
                    0 => Op::Abs(g.below(2) as u8),
                    1 => Op::TabK(g.below(4) as u8),
                    2 => Op::AbsAlias(g.below(2) as u8),
                    _ => Op::Zp(g.below(4) as u8),
                };
                lines.push(RawLine::I(code(if g.chance(1, 2) { "STX" } else { "STY" }), o, p));
            }
            13 => {
                // transfers, also as what `load(X)` / `store(Y)` emit (protected), and the inverse transfer
                // right behind (`X = e; load(X);`)
                let t = *g.pick(&["TAX", "TAY", "TXA", "TYA"]);
                lines.push(RawLine::I(code(t), Op::None, p));
                if g.chance(1, 3) {
                    let inv = match t {
                        "TAX" => "TXA",
                        "TXA" => "TAX",
                        "TAY" => "TYA",
                        _ => "TAY",
                    };
                    lines.push(RawLine::I(code(inv), Op::None, g.chance(1, 2)));
                }
            }
            14 => {
                lines.push(RawLine::I(code("CLC"), Op::None, false));
                lines.push(RawLine::I(code("ADC"), if g.chance(1, 2) { imm(g) } else { mem_operand(g) }, false));
            }
            15 => {
                lines.push(RawLine::I(code("SEC"), Op::None, false));
                lines.push(RawLine::I(code("SBC"), if g.chance(1, 2) { imm(g) } else { mem_operand(g) }, false));
            }
            16 => lines.push(RawLine::I(code(*g.pick(&["EOR", "AND", "ORA"])), if g.chance(1, 2) { imm(g) } else { mem_operand(g) }, false)),
            17 => {
                // shift: accumulator or memory (zero page / absolute)
                let o = match g.below(4) {
                    0 | 1 => Op::None,
                    2 => Op::Zp(g.below(4) as u8),
                    _ => Op::Abs(g.below(2) as u8),
                };
                lines.push(RawLine::I(code(*g.pick(&["LSR", "ASL", "ROL", "ROR"])), o, false));
            }
            18 | 19 => {
                let o = match g.below(3) {
                    0 => Op::Abs(g.below(2) as u8),
                    _ => Op::Zp(g.below(4) as u8),
                };
                lines.push(RawLine::I(code(if g.chance(1, 2) { "INC" } else { "DEC" }), o, p));
            }
            20 => lines.push(RawLine::I(code(*g.pick(&["INX", "INY", "DEX", "DEY"])), Op::None, false)),
            21..=24 => {
                // compare and branch forward (the branch directly follows the compare)
                let cmp = *g.pick(&["CMP", "CMP", "CPX", "CPY"]);
                lines.push(RawLine::I(code(cmp), if g.chance(2, 3) { imm(g) } else { Op::Zp(g.below(4) as u8) }, false));
                let b = *g.pick(&["BEQ", "BNE", "BCC", "BCS", "BEQ", "BNE"]);
                next_label += 1;
                lines.push(RawLine::I(code(b), Op::Lab(next_label), g.chance(1, 8)));
                pending.push((next_label, 1 + g.below(5)));
            }
            25 | 26 => {
                // branch on the flags of what was just loaded / incremented
                let ok = matches!(lines.last(), Some(RawLine::I(m, _, _)) if ["LDA", "LDX", "LDY", "INC", "DEC", "INX", "INY", "DEX", "DEY", "TAX", "TAY", "TXA", "TYA", "AND", "ORA", "EOR"].contains(&NAMES[*m as usize % 36]) && *m < 36);
                if ok {
                    let b = *g.pick(&["BEQ", "BNE", "BMI", "BPL"]);
                    next_label += 1;
                    lines.push(RawLine::I(code(b), Op::Lab(next_label), false));
                    pending.push((next_label, 1 + g.below(5)));
                }
            }
            27 => {
                next_label += 1;
                lines.push(RawLine::I(JMP, Op::Lab(next_label), false));
                pending.push((next_label, g.below(3)));
            }
            28 => lines.push(if g.chance(1, 2) { RawLine::Comment } else { RawLine::Inline(g.below(4) as u8) }),
            _ => {
                if g.chance(1, 2) {
                    lines.push(RawLine::I(NOP, Op::None, true));
                } else {
                    lines.push(RawLine::I(PHA, Op::None, true));
                    lines.push(RawLine::I(PLA, Op::None, true));
                }
            }
        }
    }
    RawCase {
        lines,
        mem: (0..16).map(|_| g.byte_biased()).collect(),
        a: g.byte_biased(),
        x: g.byte_biased(),
        y: g.byte_biased(),
        p: g.below(256) as u8 & 0xC3,
    }
}

// ------------------------------------------------------------------ oracles

struct Final {
    mem: Vec<u8>,
    x: u8,
    y: u8,
    stop: Stop,
}

fn execute(text: &str, case: &RawCase) -> Result<Final, String> {
    let asm = asm6502::assemble(&[Source { name: "f", text, epilogue: "" }], 0xC000, &symbols()).map_err(|e| format!("{}", e))?;
    let unit = &asm.units[0];
    let mut cpu = Cpu::new();
    cpu.mem.fill(0);
    for (a, b) in &asm.bytes {
        cpu.mem[*a as usize] = *b;
    }
    cpu.mem[unit.end as usize] = HALT;
    for k in 0..4 {
        cpu.mem[0x10 + k] = case.mem[k];
    }
    cpu.mem[0x0200] = case.mem[4];
    cpu.mem[0x0201] = case.mem[5];
    for k in 0..256usize {
        cpu.mem[0x0300 + k] = case.mem[6 + (k % 10)] ^ (k as u8).wrapping_mul(37);
    }
    cpu.a = case.a;
    cpu.x = case.x;
    cpu.y = case.y;
    cpu.sp = 0xff;
    cpu.set_flags(case.p);
    cpu.pc = unit.start;
    cpu.cycles = 0;
    cpu.instructions = 0;
    let stop = cpu.run(20_000);
    let mut mem = vec![];
    for k in 0..4 {
        mem.push(cpu.mem[0x10 + k]);
    }
    mem.push(cpu.mem[0x0200]);
    mem.push(cpu.mem[0x0201]);
    for k in 0..256usize {
        mem.push(cpu.mem[0x0300 + k]);
    }
    Ok(Final { mem, x: cpu.x, y: cpu.y, stop })
}

fn instr_list(text: &str) -> Vec<String> {
    match asm6502::assemble(&[Source { name: "f", text, epilogue: "" }], 0xC000, &symbols()) {
        Ok(a) => a.units[0]
            .items
            .iter()
            .filter_map(|i| if let Item::Instr(x) = i { Some(x.text.trim().split_whitespace().collect::<Vec<_>>().join(" ")) } else { None })
            .collect(),
        Err(_) => vec![],
    }
}

/// Ok(removed) or Err("class: detail"); `which`: 0 = both oracles, 1 = equivalence only, 2 = protected only
pub fn check(case: &RawCase, st: &mut Stats, which: u8, tag: &str) -> Result<(), String> {
    st.count("raw_lists");
    let plain = build(case);
    let before = text_of(&plain);
    let mut opt = build(case);
    let removed = opt.optimize();
    let after = text_of(&opt);
    if removed > 0 {
        st.count("raw_lists_with_removals");
        st.add("raw_removed_instructions", removed as u64);
    }
    if which != 1 {
        // every protected instruction is still there, in order
        let want: Vec<String> = case
            .lines
            .iter()
            .filter_map(|l| match l {
                RawLine::I(m, o, true) => {
                    let name = match *m {
                        JMP => "JMP",
                        NOP => "NOP",
                        PHA => "PHA",
                        PLA => "PLA",
                        k => NAMES[k as usize % 36],
                    };
                    Some(format!("{} {}", name, operand_text(*o)).trim().to_string())
                }
                _ => None,
            })
            .collect();
        let got = instr_list(&after);
        let mut gi = 0;
        for w in &want {
            let mut found = false;
            while gi < got.len() {
                gi += 1;
                if got[gi - 1].eq_ignore_ascii_case(w) {
                    found = true;
                    break;
                }
            }
            if !found {
                return Err(format!(
                    "{}-protected: the optimizer removed (or moved) the protected instruction `{}`\n--- before ---\n{}--- after ---\n{}",
                    tag, w, before, after
                ));
            }
        }
        if !want.is_empty() && removed > 0 {
            st.count("raw_lists_with_protected_and_removals");
        }
    }
    if which != 2 {
        let a = execute(&before, case).map_err(|e| format!("{}-harness: the generated list does not assemble: {}", tag, e));
        let a = match a {
            Ok(a) => a,
            Err(_) => {
                st.count("raw_not_assemblable");
                return Ok(());
            }
        };
        if a.stop != Stop::Halt {
            st.count("raw_unoptimized_does_not_halt");
            return Ok(());
        }
        let b = match execute(&after, case) {
            Ok(b) => b,
            Err(e) => return Err(format!("{}-raw-assemble: the optimized list does not assemble: {}\n--- after ---\n{}", tag, e, after)),
        };
        if b.stop != Stop::Halt {
            return Err(format!("{}-raw-termination: the optimized list stops with {:?}\n--- before ---\n{}--- after ---\n{}", tag, b.stop, before, after));
        }
        if a.mem != b.mem || a.x != b.x || a.y != b.y {
            let k = (0..a.mem.len()).find(|k| a.mem[*k] != b.mem[*k]);
            let what = match k {
                Some(k) if k < 4 => format!("v{} = {} instead of {}", k, b.mem[k], a.mem[k]),
                Some(k) if k < 6 => format!("w{} = {} instead of {}", k - 4, b.mem[k], a.mem[k]),
                Some(k) => format!("t[{}] = {} instead of {}", k - 6, b.mem[k], a.mem[k]),
                None => format!("X {} instead of {}, Y {} instead of {}", b.x, a.x, b.y, a.y),
            };
            return Err(format!(
                "{}-raw-equivalence: after optimize() the list computes something else: {}\n--- before ---\n{}--- after ---\n{}",
                tag, what, before, after
            ));
        }
    }
    if removed > 0 {
        st.nontrivial(crate::pbt::hash_str(&before));
        st.sample(1, || serde_json::json!({"kind": "raw optimizer list", "before": before, "after": after, "removed": removed}));
    }
    Ok(())
}
