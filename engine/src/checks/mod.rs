pub mod c01;
pub mod c02;
pub mod c03;
pub mod c04;
pub mod c05;
pub mod c06;
pub mod c07;
pub mod c08;
pub mod c09;
pub mod c10;
pub mod c11;
pub mod c12;
pub mod c13;
pub mod c14;
pub mod c15;
pub mod c16;
pub mod c17;
pub mod c18;
pub mod rawopt;

use crate::gen::Excl;
use crate::report::{self, RunCtx};
use serde_json::Value;

pub fn run(ctx: &mut RunCtx) -> i32 {
    match ctx.property.as_str() {
        "C01" => c01::run(ctx),
        "C02" => c02::run(ctx),
        "C13" => c13::run(ctx),
        "C04" => c04::run(ctx),
        "C03" => c03::run(ctx),
        "C07" => c07::run(ctx),
        "C10" => c10::run(ctx),
        "C17" => c17::run(ctx),
        "C18" => c18::run(ctx),
        "C15" => c15::run(ctx),
        "C14" => c14::run(ctx),
        "C12" => c12::run(ctx),
        "C16" => c16::run(ctx),
        "C05" => c05::run(ctx),
        "C11" => c11::run(ctx),
        "C08" => c08::run(ctx),
        "C06" => c06::run(ctx),
        "C09" => c09::run(ctx),
        other => {
            ctx.say(&format!("unknown property {}", other));
            2
        }
    }
}

/// Re-execute a saved case without the generator or proptest.
/// Some(true) = the violation reproduces, Some(false) = passes, None = cannot run.
pub fn replay_fails(v: &Value) -> Option<(bool, String)> {
    match v.get("kind").and_then(|k| k.as_str()).unwrap_or("") {
        "sem-refc" => c01::replay_case(v),
        "sem-opt" => c02::replay_case(v),
        "c13" => c13::replay_case(v),
        "c13-text" => c13::replay_text(v),
        "c04" => c04::replay_case(v),
        "c07" => c07::replay_case(v),
        "c10" => c10::replay_case(v),
        "c17" => c17::replay_case(v),
        "c18" => c18::replay_case(v),
        "rawopt" => {
            let case: rawopt::RawCase = serde_json::from_value(v["case"].clone()).ok()?;
            let which = v.get("which").and_then(|w| w.as_u64()).unwrap_or(0) as u8;
            let mut st = crate::pbt::Stats::default();
            match rawopt::check(&case, &mut st, which, v.get("property").and_then(|p| p.as_str()).unwrap_or("C02")) {
                Ok(()) => Some((false, format!("{:?}", st.counters))),
                Err(r) => Some((true, r)),
            }
        }
        "c15" => c15::replay_case(v),
        "c14" => c14::replay_case(v),
        "c12" => c12::replay_case(v),
        "c16" => c16::replay_case(v),
        "c05" => c05::replay_case(v),
        "c11" => c11::replay_case(v),
        "c11-text" => c11::replay_text(v),
        "c08" => c08::replay_case(v),
        "c06" => c06::replay_case(v),
        "c09" => c09::replay_case(v),
        "c03-skeleton" | "c03-program" => c03::replay_case(v),
        _ => None,
    }
}

pub fn replay(ctx: &mut RunCtx, v: &Value) -> i32 {
    match replay_fails(v) {
        Some((true, why)) => {
            ctx.say(&format!("replay: FAIL {}", why));
            if let Some(s) = v.get("source").and_then(|s| s.as_str()) {
                ctx.say(s);
            }
            1
        }
        Some((false, why)) => {
            ctx.say(&format!("replay: PASS {}", why));
            0
        }
        None => {
            ctx.say("replay: unknown or unreadable replay file");
            2
        }
    }
}

/// Replays every open finding that concerns `prop`; a finding that still reproduces is
/// reported (KNOWN-FINDING) and its exclusion rule becomes active. A finding that no longer
/// reproduces activates nothing, so the defect is reported afresh if it ever returns.
pub fn activate_exclusions(ctx: &mut RunCtx, prop: &str) -> (Excl, Vec<String>) {
    let a = activate(ctx, prop);
    REGRESSIONS.with(|r| *r.borrow_mut() = a.2);
    (a.0, a.1)
}

thread_local! {
    static REGRESSIONS: std::cell::RefCell<Vec<report::Violation>> = std::cell::RefCell::new(vec![]);
}

/// violations found while replaying the repro files of *fixed* findings (regressions)
pub fn take_regressions() -> Vec<report::Violation> {
    REGRESSIONS.with(|r| std::mem::take(&mut *r.borrow_mut()))
}

fn activate(ctx: &mut RunCtx, prop: &str) -> (Excl, Vec<String>, Vec<report::Violation>) {
    let mut ex = Excl::default();
    let mut seen = vec![];
    let mut regressions = vec![];
    for f in report::findings_for(prop) {
        if f.status == "fixed" {
            // a fixed entry suppresses nothing: its repro is a plain regression case
            if let Some(r) = &f.repro {
                if let Some(v) = report::read_json(&report::verif_root().join(r)) {
                    if let Some((true, why)) = replay_fails(&v) {
                        let mut rv = v.clone();
                        if let Some(o) = rv.as_object_mut() {
                            o.insert("property".into(), serde_json::json!(prop));
                            o.insert("regression_of".into(), serde_json::json!(f.id));
                        }
                        regressions.push(report::Violation {
                            class: format!("{}-regression", prop),
                            detail: format!("fixed finding {} fails again: {}", f.id, why),
                            replay: rv,
                        });
                    }
                }
            }
            continue;
        }
        if f.status != "open" {
            continue;
        }
        let repro = match &f.repro {
            Some(r) => report::verif_root().join(r),
            None => continue,
        };
        let v = match report::read_json(&repro) {
            Some(v) => v,
            None => {
                ctx.say(&format!("note: repro file {} of {} is unreadable", repro.display(), f.id));
                continue;
            }
        };
        match replay_fails(&v) {
            Some((true, _)) => {
                if f.property == prop {
                    seen.push(format!("{} {}", f.id, f.what_fails));
                } else {
                    ctx.say(&format!("exclusion active (finding {} of {}): {}", f.id, f.property, f.exclusion.clone().unwrap_or_default()));
                }
                if let Some(e) = &f.exclusion {
                    for name in e.split(',') {
                        ex.active.insert(name.trim().to_string());
                    }
                }
            }
            Some((false, _)) => {
                ctx.say(&format!("note: finding {} no longer reproduces; its exclusion stays off", f.id));
            }
            None => {}
        }
    }
    (ex, seen, regressions)
}
