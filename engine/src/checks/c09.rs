//! C09 — string and character literals are stored byte-exact.
use crate::cc::{self, Def, Opts, Outcome, Val};
use crate::gen::Excl;
use crate::pbt::{self, Reducible, Stats, G};
use crate::report::{self, RunCtx, Summary, Violation};
use serde::{Deserialize, Serialize};
use serde_json::json;

/// one source-level element of a literal
#[derive(Debug, Clone, Serialize, Deserialize, PartialEq)]
pub enum Piece {
    /// a printable character written as itself
    Ch(u8),
    /// an escape sequence `\x` of the property's list
    Esc(char),
    /// a multi-character trouble maker, written verbatim
    Text(String),
    /// the literal continues on the next line: backslash, newline, then n blanks that belong to
    /// the string
    Splice(u8),
}

pub type Lit = Vec<Piece>;

#[derive(Debug, Clone, Serialize, Deserialize, PartialEq)]
pub enum Item {
    /// const char s<k>[] = "a" "b" ...;   (adjacent literals concatenate)
    Array(u32, Vec<Lit>),
    /// const char *t<k>[] = {"a", "b"};
    Table(u32, Vec<Lit>),
    /// f("lit");  inside main
    CallArg(Lit),
    /// p = "lit"; inside main
    Assign(Lit),
    /// const char c<k> = 'x';
    CharConst(u32, Piece),
    /// asm("text"); inside main
    Asm(String),
    /// two calls with a literal argument each in one expression: `cr = fc("a") + fc("b");`, or
    /// nested: `cr = gc("a", fc("b"));`
    TwoCalls(Lit, Lit, bool),
    /// three literals over nested calls: 0 = `gc("a", gc("b", fc("c")))`, 1 = `fc("a") + gc("b", fc("c"))`,
    /// 2 = `gc("a", fc("b")) + fc("c")`
    ThreeCalls(Lit, Lit, Lit, u8),
    /// two calls with a literal each in the initialiser of a local: `{ char ok = fc("a") && fc("b"); cr = ok; }`
    LocalInitCalls(Lit, Lit, u8),
    /// a literal that initialises a local pointer: `{ char *lp = "lit"; pp = lp; }`
    LocalPtrInit(Lit),
}

#[derive(Debug, Clone, Serialize, Deserialize)]
pub struct Case {
    /// lines of global items (several items may share a line)
    pub lines: Vec<Vec<Item>>,
    pub stmts: Vec<Item>,
    pub macros: Vec<(String, String)>,
    /// lines of a header `lits.h` (global items and string-valued macros), included after the
    /// first `include_after` global lines of the main file
    #[serde(default)]
    pub header: Vec<Vec<Item>>,
    #[serde(default)]
    pub header_macros: Vec<(String, String)>,
    #[serde(default)]
    pub include_after: usize,
    /// 1-3: a conditional group in front of the literals whose clause after the taken one holds a string
    /// literal (1: #if 1 / #else, 2: #ifdef of a defined name / #else, 3: #if 1 / #elif 1 / #else)
    #[serde(default)]
    pub skipped_literal: u8,
}

impl Reducible for Case {
    fn reductions(&self) -> Vec<Case> {
        let mut out = vec![];
        for i in 0..self.lines.len() {
            let mut c = self.clone();
            c.lines.remove(i);
            out.push(c);
            if self.lines[i].len() > 1 {
                for j in 0..self.lines[i].len() {
                    let mut c = self.clone();
                    c.lines[i].remove(j);
                    out.push(c);
                }
            }
        }
        for i in 0..self.header.len() {
            let mut c = self.clone();
            c.header.remove(i);
            out.push(c);
        }
        for i in 0..self.header_macros.len() {
            let mut c = self.clone();
            c.header_macros.remove(i);
            out.push(c);
        }
        for i in 0..self.stmts.len() {
            let mut c = self.clone();
            c.stmts.remove(i);
            out.push(c);
        }
        for i in 0..self.macros.len() {
            let mut c = self.clone();
            c.macros.remove(i);
            out.push(c);
        }
        // shorten literals
        fn shorten(l: &Lit) -> Vec<Lit> {
            let mut v = vec![];
            if l.len() > 1 {
                v.push(l[..l.len() / 2].to_vec());
                v.push(l[l.len() / 2..].to_vec());
                for i in 0..l.len() {
                    let mut x = l.clone();
                    x.remove(i);
                    v.push(x);
                }
            }
            v
        }
        let edit = |it: &Item| -> Vec<Item> {
            let mut v = vec![];
            match it {
                Item::Array(k, parts) | Item::Table(k, parts) => {
                    let is_arr = matches!(it, Item::Array(..));
                    if parts.len() > 1 {
                        for i in 0..parts.len() {
                            let mut p = parts.clone();
                            p.remove(i);
                            v.push(if is_arr { Item::Array(*k, p) } else { Item::Table(*k, p) });
                        }
                    }
                    for i in 0..parts.len() {
                        for s in shorten(&parts[i]) {
                            let mut p = parts.clone();
                            p[i] = s;
                            v.push(if is_arr { Item::Array(*k, p) } else { Item::Table(*k, p) });
                        }
                    }
                }
                Item::CallArg(l) => shorten(l).into_iter().for_each(|s| v.push(Item::CallArg(s))),
                Item::Assign(l) => shorten(l).into_iter().for_each(|s| v.push(Item::Assign(s))),
                Item::LocalPtrInit(l) => shorten(l).into_iter().for_each(|s| v.push(Item::LocalPtrInit(s))),
                _ => {}
            }
            v
        };
        for i in 0..self.lines.len() {
            for j in 0..self.lines[i].len() {
                for e in edit(&self.lines[i][j]) {
                    let mut c = self.clone();
                    c.lines[i][j] = e;
                    out.push(c);
                }
            }
        }
        for i in 0..self.stmts.len() {
            for e in edit(&self.stmts[i]) {
                let mut c = self.clone();
                c.stmts[i] = e;
                out.push(c);
            }
        }
        out
    }
}

const ESCAPES: [(char, u8); 10] =
    [('n', 10), ('r', 13), ('t', 9), ('a', 7), ('b', 8), ('f', 12), ('v', 11), ('0', 0), ('\\', 92), ('"', 34)];

const TROUBLE: [&str; 16] = [
    "//", "/*", "*/", "/* x */", "#define", "#if 0", "#include", "FOO", "BAR", "A", "@12@", "@0@", "http://x.y/z", "; LDA #1", "'", "??/",
];

pub fn decode(l: &Lit) -> Vec<u8> {
    let mut v = vec![];
    for p in l {
        match p {
            Piece::Ch(c) => v.push(*c),
            Piece::Esc(e) => v.push(ESCAPES.iter().find(|x| x.0 == *e).map(|x| x.1).unwrap_or(b'?')),
            Piece::Text(t) => v.extend_from_slice(t.as_bytes()),
            Piece::Splice(n) => v.extend(std::iter::repeat(b' ').take(*n as usize)),
        }
    }
    v
}

pub fn spell(l: &Lit) -> String {
    let mut s = String::new();
    for p in l {
        match p {
            Piece::Ch(c) => s.push(*c as char),
            Piece::Esc(e) => {
                s.push('\\');
                s.push(*e);
            }
            Piece::Text(t) => s.push_str(t),
            Piece::Splice(n) => {
                s.push_str("\\\n");
                for _ in 0..*n {
                    s.push(' ');
                }
            }
        }
    }
    s
}

fn interesting(l: &Lit) -> bool {
    l.iter().any(|p| matches!(p, Piece::Esc(_) | Piece::Text(_) | Piece::Splice(_)))
}

fn gen_lit(g: &mut G, max: usize, ex: &Excl) -> Lit {
    let n = g.below(max + 1);
    let mut v = vec![];
    for i in 0..n {
        match g.below(10) {
            0 | 1 => {
                let mut e = ESCAPES[g.below(ESCAPES.len())].0;
                // "\0" directly followed by a digit would be an octal escape in C: outside the listed forms
                if e == '0' {
                    e = 'n';
                    if i + 1 == n {
                        e = '0';
                    }
                }
                v.push(Piece::Esc(e));
            }
            2 if g.chance(1, 3) && i > 0 => v.push(Piece::Splice(g.below(7) as u8)),
            2 => v.push(Piece::Text(TROUBLE[g.below(TROUBLE.len())].to_string())),
            3 => {
                // runs of backslashes, possibly right before an escaped quote
                let k = 1 + g.below(3);
                for _ in 0..k {
                    v.push(Piece::Esc('\\'));
                }
                // an escaped quote right after escaped backslashes ends the literal early in this
                // preprocessor (the line is then rejected): kept rare so that programs stay accepted
                if g.chance(1, 25) && !ex.has("bslash_run_before_quote") {
                    v.push(Piece::Esc('"'));
                } else if g.chance(1, 2) {
                    v.push(Piece::Ch(b'k'));
                    v.push(Piece::Esc('"'));
                }
            }
            _ => {
                let mut c = 32 + g.below(95) as u8;
                if c == b'"' || c == b'\\' {
                    c = b'x';
                }
                v.push(Piece::Ch(c));
            }
        }
    }
    // a digit after "\0" would change the meaning in C
    for i in 0..v.len().saturating_sub(1) {
        if v[i] == Piece::Esc('0') {
            if let Piece::Ch(c) = v[i + 1] {
                if c.is_ascii_digit() {
                    v[i + 1] = Piece::Ch(b'z');
                }
            }
        }
    }
    v
}

fn gen_char_piece(g: &mut G) -> Piece {
    match g.below(6) {
        0 => Piece::Esc(*g.pick(&['n', 'r', 't', 'a', 'b', 'f', 'v', '0', '\\'])),
        1 => Piece::Ch(b'A'), // a defined macro name (see Case.macros)
        // (a double quote inside a character constant is never accepted by this preprocessor: rare)
        2 if g.chance(1, 12) => Piece::Ch(b'"'),
        3 => Piece::Text("\\'".to_string()), // escaped single quote
        _ => {
            let mut c = 32 + g.below(95) as u8;
            if c == b'\'' || c == b'\\' {
                c = b'q';
            }
            Piece::Ch(c)
        }
    }
}

fn gen_global_lines(g: &mut G, ex: &Excl, k: &mut u32, nl: usize) -> Vec<Vec<Item>> {
    let mut lines = vec![];
    for _ in 0..nl {
        let per = 1 + g.below(3);
        let mut items = vec![];
        for _ in 0..per {
            *k += 1;
            items.push(match g.below(10) {
                0..=4 => {
                    let parts = 1 + g.below(3);
                    Item::Array(*k, (0..parts).map(|_| gen_lit(g, 12, ex)).collect())
                }
                5 | 6 => {
                    let n = 1 + g.below(4);
                    Item::Table(*k, (0..n).map(|_| gen_lit(g, 8, ex)).collect())
                }
                _ => {
                    let mut p = gen_char_piece(g);
                    if ex.has("macro_in_char_constant") && p == Piece::Ch(b'A') {
                        p = Piece::Ch(b'B');
                    }
                    Item::CharConst(*k, p)
                }
            });
        }
        lines.push(items);
    }
    lines
}

pub fn gen_case(g: &mut G, ex: &Excl) -> Case {
    let mut k = 0u32;
    let nl = 1 + g.below(5);
    let lines = gen_global_lines(g, ex, &mut k, nl);
    // one case in three has a header with literals of its own
    let (header, header_macros, include_after) = if g.chance(1, 3) {
        let nh = 1 + g.below(3);
        let h = gen_global_lines(g, ex, &mut k, nh);
        let hm = if g.chance(1, 2) { vec![("HSTR".to_string(), "\"header text\"".to_string())] } else { vec![] };
        (h, hm, g.below(lines.len() + 1))
    } else {
        (vec![], vec![], 0)
    };
    let mut stmts = vec![];
    let ns = g.below(4);
    for _ in 0..ns {
        stmts.push(match g.below(5) {
            0 => Item::CallArg(gen_lit(g, 10, ex)),
            1 if g.chance(1, 2) => Item::TwoCalls(gen_lit(g, 6, ex), gen_lit(g, 6, ex), g.chance(1, 2)),
            1 if g.chance(1, 2) => Item::LocalInitCalls(gen_lit(g, 5, ex), gen_lit(g, 5, ex), g.below(3) as u8),
            1 => Item::ThreeCalls(gen_lit(g, 5, ex), gen_lit(g, 5, ex), gen_lit(g, 5, ex), g.below(9) as u8),
            2 => Item::Assign(gen_lit(g, 10, ex)),
            3 if g.chance(1, 2) => Item::LocalPtrInit(gen_lit(g, 10, ex)),
            3 => Item::Assign(gen_lit(g, 10, ex)),
            _ => {
                let t = *g.pick(&["nop ; // not a comment", "lda #1 /* text */", "sta FOO", "; #define X 1", "nop"]);
                Item::Asm(t.to_string())
            }
        });
    }
    let mut macros = vec![];
    if g.chance(3, 4) {
        macros.push(("FOO".to_string(), "17".to_string()));
    }
    if g.chance(1, 2) {
        macros.push(("BAR".to_string(), "(FOO+1)".to_string()));
    }
    if g.chance(1, 2) {
        macros.push(("A".to_string(), "5".to_string()));
    }
    Case { lines, stmts, macros, header, header_macros, include_after, skipped_literal: if g.chance(1, 3) { 1 + g.below(3) as u8 } else { 0 } }
}

fn item_text(it: &Item) -> String {
    match it {
        Item::Array(k, parts) => {
            let lits: Vec<String> = parts.iter().map(|l| format!("\"{}\"", spell(l))).collect();
            format!("const char s{}[] = {};", k, lits.join(" "))
        }
        Item::Table(k, parts) => {
            let lits: Vec<String> = parts.iter().map(|l| format!("\"{}\"", spell(l))).collect();
            format!("const char *t{}[] = {{{}}};", k, lits.join(", "))
        }
        // every fourth one goes through a macro that uses its parameter twice (the constant is hidden while
        // macros are replaced and must come back at each use)
        Item::CharConst(k, p) if k % 4 == 1 => format!("const char c{} = PICK2('{}');", k, spell(&vec![p.clone()])),
        Item::CharConst(k, p) => format!("const char c{} = '{}';", k, spell(&vec![p.clone()])),
        Item::CallArg(l) => format!("ff(\"{}\");", spell(l)),
        Item::LocalInitCalls(a, b, shape) => {
            let op = match shape {
                0 => "&&",
                1 => "+",
                _ => "|",
            };
            format!("{{ char ok = fc(\"{}\") {} fc(\"{}\"); cr = ok; }}", spell(a), op, spell(b))
        }
        Item::ThreeCalls(a, b, c, shape) => match shape {
            0 => format!("cr = gc(\"{}\", gc(\"{}\", fc(\"{}\")));", spell(a), spell(b), spell(c)),
            1 => format!("cr = fc(\"{}\") + gc(\"{}\", fc(\"{}\"));", spell(a), spell(b), spell(c)),
            2 => format!("cr = gc(\"{}\", fc(\"{}\")) + fc(\"{}\");", spell(a), spell(b), spell(c)),
            // three literal-bearing groups side by side, and a literal on each side of a call in one argument list
            3 => format!("cr = fc(\"{}\") + fc(\"{}\") + fc(\"{}\");", spell(a), spell(b), spell(c)),
            4 => format!("cr = g3(\"{}\", fc(\"{}\"), \"{}\");", spell(a), spell(b), spell(c)),
            // a parenthesised group with literals of its own after a literal of the enclosing expression
            5 => format!("cr = fc(\"{}\") + (fc(\"{}\") + fc(\"{}\"));", spell(a), spell(b), spell(c)),
            6 => format!("cr = fc(\"{}\") && (fc(\"{}\") || fc(\"{}\"));", spell(a), spell(b), spell(c)),
            7 => format!("cr = (fc(\"{}\") | fc(\"{}\")) + (fc(\"{}\"));", spell(a), spell(b), spell(c)),
            _ => format!("pp = cr ? \"{}\" : (cr == 2 ? \"{}\" : \"{}\");", spell(a), spell(b), spell(c)),
        },
        Item::TwoCalls(a, b, nested) => {
            if *nested {
                format!("cr = gc(\"{}\", fc(\"{}\"));", spell(a), spell(b))
            } else {
                format!("cr = fc(\"{}\") + fc(\"{}\");", spell(a), spell(b))
            }
        }
        Item::Assign(l) => format!("pp = \"{}\";", spell(l)),
        Item::LocalPtrInit(l) => format!("{{ char *lp = \"{}\"; pp = lp; }}", spell(l)),
        Item::Asm(t) => format!("asm(\"{}\");", t),
    }
}

/// the text of `lits.h` (empty when the case has no header)
pub fn header_text(c: &Case) -> String {
    let mut s = String::new();
    s.push_str("// literals of the header\n");
    for (n, v) in &c.header_macros {
        s.push_str(&format!("#define {} {}\n", n, v));
    }
    for l in &c.header {
        let parts: Vec<String> = l.iter().map(item_text).collect();
        s.push_str(&parts.join(" "));
        s.push('\n');
    }
    s
}

pub fn source(c: &Case) -> String {
    let mut s = String::new();
    for (n, v) in &c.macros {
        s.push_str(&format!("#define {} {}\n", n, v));
    }
    s.push_str("#define PICK2(p) ((p) | (p))\nchar *pp;\nvoid ff(char *q) { }\n");
    if c.stmts.iter().any(|i| matches!(i, Item::TwoCalls(..) | Item::ThreeCalls(..) | Item::LocalInitCalls(..))) {
        s.push_str("char cr;\nchar fc(char *q) { return 1; }\nchar gc(char *q, char c) { return c; }\nchar g3(char *q, char c, char *r) { return c; }\n");
    }
    // a string literal in a clause that is not compiled must not disturb the literals that follow
    match c.skipped_literal {
        1 => s.push_str("#if 1\nconst char sk_taken[] = \"taken\";\n#else\nconst char sk_other[] = \"never compiled\";\n#endif\n"),
        2 => s.push_str("#define SK_DEFINED 1\n#ifdef SK_DEFINED\nchar sk_v;\n#else\nconst char sk_other[] = \"never \\\"compiled\\\"\";\n#endif\n"),
        3 => s.push_str("#if 1\nchar sk_v;\n#elif 1\nconst char sk_a[] = \"a\";\n#else\nconst char sk_b[] = \"b\" \"c\";\n#endif\n"),
        _ => {}
    }
    let has_header = !c.header.is_empty() || !c.header_macros.is_empty();
    for (i, l) in c.lines.iter().enumerate() {
        if has_header && i == c.include_after.min(c.lines.len()) {
            s.push_str("#include \"lits.h\"\n");
        }
        let parts: Vec<String> = l.iter().map(item_text).collect();
        s.push_str(&parts.join(" "));
        s.push('\n');
    }
    if has_header && c.include_after >= c.lines.len() {
        s.push_str("#include \"lits.h\"\n");
    }
    s.push_str("void main()\n{\n");
    for st in &c.stmts {
        s.push_str("  ");
        s.push_str(&item_text(st));
        s.push('\n');
    }
    s.push_str("}\n");
    s
}

fn array_bytes(d: &Def) -> Option<Vec<u8>> {
    if let Def::Array(a) = d {
        let mut v = vec![];
        for x in a {
            if let Val::Int(i) = x {
                v.push((*i & 0xff) as u8);
            } else {
                return None;
            }
        }
        Some(v)
    } else {
        None
    }
}

fn hex(b: &[u8]) -> String {
    b.iter().map(|x| format!("{:02x}", x)).collect::<Vec<_>>().join(" ")
}

pub fn check(case: &Case, st: &mut Stats, ex: &Excl) -> Result<(), String> {
    st.count("programs");
    if ex.has("bslash_run_before_quote") {
        let bad = |l: &Lit| l.windows(2).any(|w| w[0] == Piece::Esc('\\') && w[1] == Piece::Esc('"'));
        let mut hit = false;
        for it in case.header.iter().flatten().chain(case.lines.iter().flatten()).chain(case.stmts.iter()) {
            match it {
                Item::Array(_, p) | Item::Table(_, p) => hit |= p.iter().any(bad),
                Item::CallArg(l) | Item::Assign(l) | Item::LocalPtrInit(l) => hit |= bad(l),
                Item::TwoCalls(a, b, _) => hit |= bad(a) || bad(b),
                Item::ThreeCalls(a, b, c, _) => hit |= bad(a) || bad(b) || bad(c),
                Item::LocalInitCalls(a, b, _) => hit |= bad(a) || bad(b),
                _ => {}
            }
        }
        if hit {
            st.count("excluded:bslash_run_before_quote");
            return Ok(());
        }
    }
    if ex.has("macro_in_char_constant") {
        let defined: Vec<&str> = case.macros.iter().map(|m| m.0.as_str()).collect();
        for it in case.header.iter().flatten().chain(case.lines.iter().flatten()) {
            if let Item::CharConst(_, Piece::Ch(c)) = it {
                if defined.contains(&(*c as char).to_string().as_str()) {
                    st.count("excluded:macro_in_char_constant");
                    return Ok(());
                }
            }
        }
    }
    let src = source(case);
    let mut opts = Opts::o(1);
    let dir;
    if !case.header.is_empty() || !case.header_macros.is_empty() {
        dir = crate::tx::TempDir::new("c09");
        dir.write("lits.h", &header_text(case));
        opts.include_dirs.push(dir.path());
        st.count("label:header-with-literals");
    }
    let cap = match cc::compile_str(&src, &opts) {
        Outcome::Ok(c) => c,
        Outcome::Err(e) => {
            // "for every literal the compiler accepts": a rejection is not a C09 violation
            st.count("rejected");
            st.count(&format!("rej:{}", crate::sem::msg_key(&e.msg())));
            return Ok(());
        }
        Outcome::Panic(p) => {
            st.count(&format!("panic(routed to C16):{}", p.sig));
            return Ok(());
        }
    };
    st.count("accepted");
    let var = |name: &str| cap.vars.iter().find(|v| v.name == name);
    let mut nt = false;
    // literal variables created for anonymous strings, by content
    let mut anon: Vec<Vec<u8>> =
        cap.vars.iter().filter(|v| v.name.starts_with("cctmp") && v.name.len() > 5).filter_map(|v| array_bytes(&v.def)).collect();
    let mut take_anon = |want: &Vec<u8>| -> bool {
        if let Some(i) = anon.iter().position(|a| a == want) {
            anon.remove(i);
            true
        } else {
            false
        }
    };
    for it in case.header.iter().flatten().chain(case.lines.iter().flatten()).chain(case.stmts.iter()) {
        match it {
            Item::Array(k, parts) => {
                st.count("literals");
                let mut want: Vec<u8> = parts.iter().flat_map(|l| decode(l)).collect();
                want.push(0);
                let v = match var(&format!("s{}", k)) {
                    Some(v) => v,
                    None => return Err(format!("C09-missing: array s{} is not declared in the compiled program", k)),
                };
                let got = array_bytes(&v.def).unwrap_or_default();
                if got != want {
                    return Err(format!("C09-bytes: s{} = {:?}: expected bytes [{}] stored [{}]", k, parts.iter().map(spell).collect::<Vec<_>>(), hex(&want), hex(&got)));
                }
                if v.size != want.len() {
                    return Err(format!("C09-size: s{}: {} bytes expected, declared size {}", k, want.len(), v.size));
                }
                if parts.iter().any(interesting) {
                    nt = true;
                }
            }
            Item::Table(k, parts) => {
                let v = match var(&format!("t{}", k)) {
                    Some(v) => v,
                    None => return Err(format!("C09-missing: table t{} is not declared in the compiled program", k)),
                };
                let refs = match &v.def {
                    Def::ArrayOfPointers(r) => r.clone(),
                    other => return Err(format!("C09-table: t{} is not an array of pointers: {:?}", k, other)),
                };
                if refs.len() != parts.len() {
                    return Err(format!("C09-table: t{} has {} entries, source has {}", k, refs.len(), parts.len()));
                }
                for (i, l) in parts.iter().enumerate() {
                    st.count("literals");
                    let mut want = decode(l);
                    want.push(0);
                    let target = var(&refs[i].0).and_then(|t| array_bytes(&t.def)).unwrap_or_default();
                    if target != want || refs[i].1 != 0 {
                        return Err(format!(
                            "C09-bytes: t{}[{}] = \"{}\": expected bytes [{}], entry points to {}+{} = [{}]",
                            k, i, spell(l), hex(&want), refs[i].0, refs[i].1, hex(&target)
                        ));
                    }
                    // consumed from the anonymous pool
                    take_anon(&want);
                    if interesting(l) {
                        nt = true;
                    }
                }
            }
            Item::CallArg(l) | Item::Assign(l) | Item::LocalPtrInit(l) => {
                if matches!(it, Item::LocalPtrInit(_)) {
                    st.count("label:literal-initialising-a-local-pointer");
                }
                st.count("literals");
                let mut want = decode(l);
                want.push(0);
                if !take_anon(&want) {
                    return Err(format!(
                        "C09-bytes: anonymous literal \"{}\": no literal variable holds the expected bytes [{}]",
                        spell(l),
                        hex(&want)
                    ));
                }
                if interesting(l) {
                    nt = true;
                }
            }
            Item::TwoCalls(..) | Item::ThreeCalls(..) | Item::LocalInitCalls(..) => {
                st.count("label:several-literal-calls-in-one-expression");
                let lits: Vec<&Lit> = match it {
                    Item::TwoCalls(a, b, _) => vec![a, b],
                    Item::ThreeCalls(a, b, c, _) => vec![a, b, c],
                    Item::LocalInitCalls(a, b, _) => vec![a, b],
                    _ => vec![],
                };
                for l in lits {
                    st.count("literals");
                    let mut want = decode(l);
                    want.push(0);
                    if !take_anon(&want) {
                        return Err(format!(
                            "C09-bytes: literal \"{}\" of an expression with two calls: no literal variable holds the expected bytes [{}]",
                            spell(l),
                            hex(&want)
                        ));
                    }
                }
                nt = true;
            }
            Item::CharConst(k, p) => {
                st.count("char_constants");
                let want = match p {
                    Piece::Text(t) if t == "\\'" => 39,
                    other => decode(&vec![other.clone()])[0] as i32,
                };
                match var(&format!("c{}", k)).map(|v| &v.def) {
                    Some(Def::Value(Val::Int(i))) => {
                        if *i != want {
                            return Err(format!("C09-char: c{} = '{}' denotes {} but the compiler stored {}", k, spell(&vec![p.clone()]), want, i));
                        }
                    }
                    other => return Err(format!("C09-char: c{} has no constant value: {:?}", k, other)),
                }
                if !matches!(p, Piece::Ch(c) if *c != b'A' && *c != b'"') {
                    nt = true;
                }
            }
            Item::Asm(t) => {
                st.count("asm_strings");
                let main = cap.funcs.iter().find(|f| f.name == "main").map(|f| f.asm.clone()).unwrap_or_default();
                if !main.lines().any(|l| l.trim() == t.trim()) {
                    return Err(format!("C09-asm: asm(\"{}\") is not emitted verbatim; main is:\n{}", t, main));
                }
                nt = true;
            }
        }
    }
    if nt {
        st.nontrivial(pbt::hash_str(&src));
        st.sample(3, || json!({"source": src}));
    }
    Ok(())
}

pub fn run(ctx: &mut RunCtx) -> i32 {
    let cases = ctx.cases(60_000, 1_500_000);
    let (excl, known_seen) = super::activate_exclusions(ctx, "C09");
    let (stats, failures, aborted) = pbt::run_sharded(
        ctx.seed,
        "C09",
        ctx.shards,
        cases,
        4000,
        |_| {
            let ex = excl.clone();
            pbt::strategy(move |g| gen_case(g, &ex))
        },
        |case: &Case, st: &mut Stats| check(case, st, &excl),
    );
    let mut violations = super::take_regressions();
    for f in failures {
        let class = f.reason.split(':').next().unwrap_or("").to_string();
        violations.push(Violation {
            class,
            detail: f.reason.clone(),
            replay: json!({"property": "C09", "kind": "c09", "reason": f.reason, "source": source(&f.minimal), "header lits.h": header_text(&f.minimal), "case": f.minimal}),
        });
    }
    let s = Summary {
        stats,
        rule: "programs with 1-15 literals: named char arrays (with adjacent-literal concatenation), pointer tables, call arguments, \
               pointer assignments, asm strings and character constants, several per line, contents drawn from printable ASCII, \
               the ten escapes of the property, runs of backslashes before quotes and comment/directive/macro look-alikes, with \
               macros FOO/BAR/A defined; expected bytes from an independent decoder; non-trivial = contains an escape or a \
               look-alike; distinct by hash of source"
            .into(),
        assumptions: vec!["only the escapes listed in the property are generated (no octal/hex escapes, no digit after \\0)".into()],
        extra: json!({}),
        violations,
        known_seen,
        inconclusive: aborted,
    };
    report::finish(ctx, s)
}

pub fn replay_case(v: &serde_json::Value) -> Option<(bool, String)> {
    let case: Case = serde_json::from_value(v["case"].clone()).ok()?;
    let mut st = Stats::default();
    match check(&case, &mut st, &Excl::default()) {
        Ok(()) => Some((false, format!("{:?}", st.counters))),
        Err(r) => Some((true, r)),
    }
}
