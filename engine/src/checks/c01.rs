//! C01 — emitted code computes what the source says (differential against RefC).
use crate::gen::GenCfg;
use crate::pbt::{self, Stats};
use crate::report::{self, RunCtx, Summary, Violation};
use crate::sem::{self, SemCase};
use serde_json::json;

pub fn cfg() -> GenCfg {
    // half of C01's programs are compiled with the optimizer on: its stress patterns belong here too
    GenCfg { opt_stress: true, ..GenCfg::default() }
}

pub fn run(ctx: &mut RunCtx) -> i32 {
    let cases = ctx.cases(40_000, 1_500_000);
    let n_inits = ctx.tier.pick(8, 16);
    let (excl, known_seen) = super::activate_exclusions(ctx, "C01");
    let mut cfg = cfg();
    cfg.excl = excl.clone();
    let (stats, failures, aborted) = pbt::run_sharded(
        ctx.seed,
        "C01",
        ctx.shards,
        cases,
        4000,
        |shard| {
            let mut cfg = cfg.clone();
            // one shard in eight places variables in split-port cartridge RAM (read and written at different
            // addresses): what the source says does not depend on where a variable lives
            if shard % 8 == 7 {
                cfg.split_permille = 300;
                cfg.split_qual = if shard % 16 == 7 { crate::ast::MemQual::Superchip } else { crate::ast::MemQual::Bank(1) };
            }
            pbt::strategy(move |g| sem::gen_case(g, &cfg, n_inits, &[0, 1], true))
        },
        |case: &SemCase, st: &mut Stats| sem::check_against_refc(case, st, "C01", &excl),
    );
    let mut violations = super::take_regressions();
    for f in failures {
        let class = f.reason.split(':').next().unwrap_or("").to_string();
        violations.push(Violation {
            class,
            detail: f.reason.clone(),
            replay: json!({
                "property": "C01",
                "kind": "sem-refc",
                "reason": f.reason,
                "source": f.minimal.source(),
                "options": f.minimal.opts().describe(),
                "case": f.minimal,
            }),
        });
    }
    let s = Summary {
        stats,
        rule: "programs built by the structured generator (gen::ProgGen), each run from K random initial states; \
               non-trivial = accepted by the compiler, all RefC readings agree and are UB-free on the vector, and the final \
               state differs from the initial one in a compared location; distinct by hash of (source, options, vector)"
            .into(),
        assumptions: vec![
            "own assembler asm6502, emulator emu6502 and reference interpreter refc are correct".into(),
            "comparison only inside the agreement domain of the ISO and narrow readings".into(),
        ],
        extra: json!({}),
        violations,
        known_seen,
        inconclusive: aborted,
    };
    report::finish(ctx, s)
}

pub fn replay_case(v: &serde_json::Value) -> Option<(bool, String)> {
    let case: SemCase = serde_json::from_value(v["case"].clone()).ok()?;
    let mut st = Stats::default();
    let tag = v["property"].as_str().unwrap_or("C01").to_string();
    match sem::check_against_refc(&case, &mut st, &tag, &crate::gen::Excl::default()) {
        Ok(()) => Some((false, format!("{:?}", st.counters))),
        Err(r) => Some((true, r)),
    }
}
