//! C17 — split-port cartridge RAM is read and written through the right ports.
use crate::asm6502::{is_rmw, is_store, Item, Mode};
use crate::ast::*;
use crate::gen::{Excl, GenCfg};
use crate::layout::MemClass;
use crate::pbt::{self, Stats};
use crate::report::{self, RunCtx, Summary, Violation};
use crate::sem::{self, Built, SemCase};
use serde_json::json;

pub fn cfg(shard: usize) -> GenCfg {
    let mut c = GenCfg { split_permille: 400, max_helpers: 2, opt_stress: true, ..GenCfg::default() };
    c.split_qual = if shard % 2 == 0 { MemQual::Superchip } else { MemQual::Bank(1 + (shard as u32 / 2) % 3) };
    c
}

/// static port discipline on the assembled operands
fn static_ports(case: &SemCase, st: &mut Stats) -> Result<bool, String> {
    let src = case.source();
    let (_, img) = match sem::build(&src, &case.opts(), case.layout_shuffle) {
        Built::Ok(c, i) => (c, i),
        _ => return Ok(false),
    };
    let mut any = false;
    for u in &img.asm.units {
        for it in &u.items {
            if let Item::Instr(i) = it {
                if matches!(i.mode, Mode::Imp | Mode::Imm | Mode::Rel) || i.lowercase {
                    continue;
                }
                let sym = match i.symbols.first() {
                    Some(s) => s,
                    None => continue,
                };
                let o = match img.layout.object(sym) {
                    Some(o) if o.class == MemClass::Split => o,
                    _ => continue,
                };
                any = true;
                let addr = i.value as u16;
                let in_read = addr >= o.read_addr && addr < o.read_addr + o.bytes;
                let in_write = addr >= o.write_addr && addr < o.write_addr + o.bytes;
                let m = i.mnemonic.as_str();
                if is_rmw(m) {
                    return Err(format!("C17-rmw: `{}` applies a read-modify-write instruction to split-port variable {}", i.text.trim(), sym));
                }
                if is_store(m) {
                    st.count("static_store_operands");
                    if !in_write {
                        return Err(format!("C17-write-port: `{}` stores to {} outside its write port (${:04x}..)", i.text.trim(), sym, o.write_addr));
                    }
                } else if m != "JMP" && m != "JSR" {
                    st.count("static_read_operands");
                    if !in_read {
                        return Err(format!("C17-read-port: `{}` reads {} outside its read port (${:04x}..)", i.text.trim(), sym, o.read_addr));
                    }
                }
            }
        }
    }
    Ok(any)
}

/// `own` = exclusion rules of C17's own findings (they apply to everything); `ex` = those plus
/// the rules of the miscompilation findings, which only the semantic comparison has to honour:
/// the port discipline is checked on miscompiled shapes too.
pub fn check(case: &SemCase, st: &mut Stats, ex: &Excl, own: &Excl) -> Result<(), String> {
    if crate::excl::find_excluded(&case.prog, own).is_some() {
        st.count("excluded_program");
        return Ok(());
    }
    let has_split = case.prog.globals.iter().any(|g| matches!(g.mem, MemQual::Superchip | MemQual::Bank(_)));
    if has_split {
        st.count("programs_with_split_port_variables");
    }
    let used = static_ports(case, st)?;
    if used {
        st.count("programs_touching_split_port_memory");
    }
    if let Some(rule) = crate::excl::find_excluded(&case.prog, ex) {
        // a shape with a known miscompilation: only the static port discipline is checked (what it
        // does at run time may be wrong for the known reason, stray accesses included)
        st.count(&format!("static_only:{}", rule));
        if used {
            st.nontrivial(pbt::hash_str(&format!("static|{}|{:?}", case.source(), case.opts().describe())));
        }
        return Ok(());
    }
    // dynamic discipline (emulator faults) and semantics (RefC) together
    let before = st.nontrivial.len();
    sem::check_against_refc(case, st, "C17", ex)?;
    if !used {
        // only programs that really touch split-port memory count as non-trivial
        if st.nontrivial.len() > before && !st.frozen {
            // keep the count honest: remove what check_against_refc added for this case
            let src = case.source();
            let opts = case.opts().describe();
            for init in &case.inits {
                st.nontrivial.remove(&pbt::hash_str(&format!("{}|{:?}|{:?}", src, opts, init)));
            }
        }
    }
    Ok(())
}

/// the subset of `ex` that comes from C17's own open findings
pub fn own_rules(ex: &Excl) -> Excl {
    let mut own = Excl::default();
    for f in report::load_findings() {
        if f.property == "C17" && f.status == "open" {
            if let Some(e) = &f.exclusion {
                for n in e.split(',') {
                    if ex.has(n.trim()) {
                        own.active.insert(n.trim().to_string());
                    }
                }
            }
        }
    }
    // known miscompilations that consist in a wrong operand address (the operand then also lies
    // outside the variable's ports): same root cause, same rule
    for n in ["short_array_shr8"] {
        if ex.has(n) {
            own.active.insert(n.to_string());
        }
    }
    own
}

pub fn run(ctx: &mut RunCtx) -> i32 {
    let cases = ctx.cases(30_000, 1_000_000);
    let n_inits = ctx.tier.pick(6, 16);
    let (excl, known_seen) = super::activate_exclusions(ctx, "C17");
    let own = own_rules(&excl);
    let (stats, failures, aborted) = pbt::run_sharded(
        ctx.seed,
        "C17",
        ctx.shards,
        cases,
        4000,
        |shard| {
            // two thirds of the programs avoid every known miscompiled shape (they are compared
            // with RefC); one third avoids only C17's own known shapes (static port check of all)
            let mut cfg_sem = cfg(shard);
            cfg_sem.excl = excl.clone();
            let mut cfg_static = cfg(shard);
            cfg_static.excl = own.clone();
            pbt::strategy(move |g| {
                if g.chance(1, 3) {
                    sem::gen_case(g, &cfg_static, n_inits, &[0, 1], false)
                } else {
                    sem::gen_case(g, &cfg_sem, n_inits, &[0, 1], false)
                }
            })
        },
        |case: &SemCase, st: &mut Stats| check(case, st, &excl, &own),
    );
    let mut violations = super::take_regressions();
    for f in failures {
        let class = f.reason.split(':').next().unwrap_or("").to_string();
        violations.push(Violation {
            class,
            detail: f.reason.clone(),
            replay: json!({"property": "C17", "kind": "c17", "reason": f.reason, "source": f.minimal.source(),
                           "options": f.minimal.opts().describe(), "case": f.minimal}),
        });
    }
    let s = Summary {
        stats,
        rule: "C01's generated programs with 40 % of the char/short/array variables declared superchip (scheme 4K) or bankN (schemes \
               3E and 3E+); (a) static: every assembled operand naming such a variable lies in the read port for reads and in the \
               write port for stores, never under a read-modify-write instruction; (b) dynamic: the emulator's split-port memory \
               reports any read of a write port, write to a read port or RMW access; (c) the final state equals the reference \
               interpreter's (agreement domain), i.e. the program computes what it computes without the qualifiers; non-trivial = \
               the program touches split-port memory, the vector is compared and changes the state; distinct by (source, options, vector)"
            .into(),
        assumptions: vec!["port offsets: superchip write +0/read +$80; 3E read +0/write +$400; 3E+ read +0/write +$200 (as in cc6502's asm())".into()],
        extra: json!({}),
        violations,
        known_seen,
        inconclusive: aborted,
    };
    report::finish(ctx, s)
}

pub fn replay_case(v: &serde_json::Value) -> Option<(bool, String)> {
    let case: SemCase = serde_json::from_value(v["case"].clone()).ok()?;
    let mut st = Stats::default();
    match check(&case, &mut st, &Excl::default(), &Excl::default()) {
        Ok(()) => Some((false, format!("{:?}", st.counters))),
        Err(r) => Some((true, r)),
    }
}
