//! C06 — diagnostics name the true source location.
//!
//! A valid program skeleton, 0-6 line-shifting constructs, then exactly one planted defect whose
//! position is unambiguous. The text and the expected (file, lines, included_in) are built together.
use crate::cc::{self, Opts, Outcome};
use crate::gen::Excl;
use crate::pbt::{self, Reducible, Stats, G};
use crate::report::{self, RunCtx, Summary, Violation};
use crate::tx;
use serde::{Deserialize, Serialize};
use serde_json::json;

#[derive(Debug, Clone, Serialize, Deserialize, PartialEq)]
pub enum Shift {
    Blank(u8),
    LineComment,
    /// block comment over n lines; code before the opening / after the closing on the same lines
    BlockComment { lines: u8, code_before: bool, code_after: bool },
    /// a declaration spliced over n+1 physical lines
    Splice(u8),
    IfZero(u8),
    Define,
    /// a macro use that expands on an ordinary line
    MacroUse,
    IncludeHeader { nested: bool },
    IncludeAsm,
    Decl,
    /// a backslash-newline whose continuation line is blank: 0 = at the end of a `//` comment,
    /// 1 = at the end of a `#define`, 2 = inside a declaration
    SpliceIntoBlank(u8),
    /// an included file (C header or assembler) whose last line has no end-of-line character
    IncludeNoNewline { asm: bool },
    /// n character constants made of a multi-byte character (they reach the compiler as they are)
    NonAscii(u8),
}

#[derive(Debug, Clone, Copy, Serialize, Deserialize, PartialEq, Eq, Hash, PartialOrd, Ord)]
pub enum Defect {
    // preprocessor
    ErrorDirective,
    UnknownDirective,
    UnterminatedString,
    StrayEndif,
    MissingInclude,
    MacroRedefined,
    UndefinedInIf,
    // syntax
    DoubleOperator,
    DanglingOperator,
    StrayParen,
    EmptyInitialiser,
    // semantic (compile stage)
    DuplicateGlobal,
    ArraySizeMismatch,
    TypeTooComplex,
    /// located at the first token of a top-level line
    BadReturnType,
    // generator stage
    UnknownIdentifier,
    UnknownFunction,
    TooManyArgs,
    BreakOutsideLoop,
    DerefNonPointer,
    SubscriptOnScalar,
    BadCsleep,
    TooComplex,
    RuntimeDivision,
    ReturnValueFromVoid,
}

pub const DEFECTS: [Defect; 25] = [
    Defect::ErrorDirective,
    Defect::UnknownDirective,
    Defect::UnterminatedString,
    Defect::StrayEndif,
    Defect::MissingInclude,
    Defect::MacroRedefined,
    Defect::UndefinedInIf,
    Defect::DoubleOperator,
    Defect::DanglingOperator,
    Defect::StrayParen,
    Defect::EmptyInitialiser,
    Defect::DuplicateGlobal,
    Defect::ArraySizeMismatch,
    Defect::TypeTooComplex,
    Defect::UnknownIdentifier,
    Defect::UnknownFunction,
    Defect::TooManyArgs,
    Defect::BreakOutsideLoop,
    Defect::DerefNonPointer,
    Defect::SubscriptOnScalar,
    Defect::BadCsleep,
    Defect::TooComplex,
    Defect::RuntimeDivision,
    Defect::ReturnValueFromVoid,
    Defect::BadReturnType,
];

impl Defect {
    /// is the defect a statement (inside a function body) rather than a global-scope line?
    pub fn in_body(self) -> bool {
        !matches!(
            self,
            Defect::ErrorDirective
                | Defect::UnknownDirective
                | Defect::UnterminatedString
                | Defect::StrayEndif
                | Defect::MissingInclude
                | Defect::MacroRedefined
                | Defect::UndefinedInIf
                | Defect::EmptyInitialiser
                | Defect::DuplicateGlobal
                | Defect::ArraySizeMismatch
                | Defect::TypeTooComplex
                | Defect::BadReturnType
        )
    }
    pub fn stage(self) -> &'static str {
        use Defect::*;
        match self {
            ErrorDirective | UnknownDirective | UnterminatedString | StrayEndif | MissingInclude | MacroRedefined | UndefinedInIf => {
                "preprocessor"
            }
            DoubleOperator | DanglingOperator | StrayParen | EmptyInitialiser => "syntax",
            DuplicateGlobal | ArraySizeMismatch | TypeTooComplex | BadReturnType => "semantic",
            _ => "codegen",
        }
    }
    /// the offending text (one logical line); `u` makes names unique
    pub fn text(self, u: u32) -> Vec<String> {
        use Defect::*;
        match self {
            ErrorDirective => vec![format!("#error boom{}", u)],
            UnknownDirective => vec!["#foo bar".into()],
            UnterminatedString => vec![format!("const char us{}[] = \"abc;", u)],
            StrayEndif => vec!["#endif".into()],
            MissingInclude => vec![format!("#include \"nothere{}.h\"", u)],
            // two lines: the second one is the offender
            MacroRedefined => vec![format!("#define RD{} 3", u), format!("#define RD{} 4", u)],
            UndefinedInIf => vec![format!("#if NOPE{}", u), "#endif".into()],
            DoubleOperator => vec!["  uc1 = = 2;".into()],
            DanglingOperator => vec!["  uc1 = 1 + ;".into()],
            StrayParen => vec!["  uc1 = (1;".into()],
            EmptyInitialiser => vec![format!("const char ei{} = ;", u)],
            DuplicateGlobal => vec!["char uc1;".into()],
            ArraySizeMismatch => vec![format!("const char am{}[2] = {{1, 2, 3}};", u)],
            TypeTooComplex => vec![format!("short *tc{};", u)],
            BadReturnType => vec![format!("int rt{}() {{ return 0; }}", u)],
            UnknownIdentifier => vec![format!("  nope{} = 1;", u)],
            UnknownFunction => vec![format!("  uc1 = nofn{}(1);", u)],
            TooManyArgs => vec!["  hf2(1, 2, 3);".into()],
            BreakOutsideLoop => vec!["  break;".into()],
            DerefNonPointer => vec!["  *uc1 = 1;".into()],
            SubscriptOnScalar => vec!["  uc1[2] = 1;".into()],
            BadCsleep => vec!["  csleep(1);".into()],
            TooComplex => vec!["  ar1[uc1] = ar2[uc2] + uc3;".into()],
            RuntimeDivision => vec!["  uc1 = 1 / uc2;".into()],
            ReturnValueFromVoid => vec!["  return 5;".into()],
        }
    }
}

#[derive(Debug, Clone, Copy, Serialize, Deserialize, PartialEq)]
pub enum Place {
    Main,
    Header,
    NestedHeader,
}

#[derive(Debug, Clone, Serialize, Deserialize)]
pub struct Case {
    pub before: Vec<Shift>,
    /// shifting constructs inside the function body, before the defect statement
    pub inside: Vec<Shift>,
    pub defect: Defect,
    pub place: Place,
    /// splice the defect's own logical line after its first token
    pub splice_defect: bool,
    pub crlf: bool,
    pub u: u32,
    /// indentation of the offending line: 0 = column 0, 1 = two blanks, 2 = a tab, 3 = six blanks
    #[serde(default = "one")]
    pub indent: u8,
}

fn one() -> u8 {
    1
}

impl Reducible for Case {
    fn reductions(&self) -> Vec<Case> {
        let mut out = vec![];
        for i in 0..self.before.len() {
            let mut c = self.clone();
            c.before.remove(i);
            out.push(c);
        }
        for i in 0..self.inside.len() {
            let mut c = self.clone();
            c.inside.remove(i);
            out.push(c);
        }
        if self.splice_defect {
            out.push(Case { splice_defect: false, ..self.clone() });
        }
        if self.crlf {
            out.push(Case { crlf: false, ..self.clone() });
        }
        if self.indent != 1 {
            out.push(Case { indent: 1, ..self.clone() });
        }
        if self.place != Place::Main {
            out.push(Case { place: Place::Main, ..self.clone() });
        }
        out
    }
}

pub struct Built {
    pub files: Vec<(String, String)>,
    pub main: String,
    pub expect_file: String,
    pub expect_lines: Vec<u32>,
    pub expect_included_in: Option<(String, u32)>,
    pub shifted: bool,
}

struct Writer {
    text: String,
    line: u32,
    eol: &'static str,
}

impl Writer {
    fn new(crlf: bool) -> Writer {
        Writer { text: String::new(), line: 0, eol: if crlf { "\r\n" } else { "\n" } }
    }
    fn put(&mut self, s: &str) -> u32 {
        self.text.push_str(s);
        self.text.push_str(self.eol);
        self.line += 1;
        self.line
    }
}

fn emit_shift(w: &mut Writer, s: &Shift, n: &mut u32, files: &mut Vec<(String, String)>, in_body: bool, fname: &str) {
    *n += 1;
    let k = *n;
    let decl = |k: u32| if in_body { format!("  uc2 = {};", k % 200) } else { format!("char sh{}_{};", fname.replace('.', "_"), k) };
    match s {
        Shift::Blank(c) => {
            for _ in 0..*c {
                w.put("");
            }
        }
        Shift::LineComment => {
            w.put("// a comment with \"quotes\" and /* stars");
        }
        Shift::BlockComment { lines, code_before, code_after } => {
            let first = if *code_before { format!("{} /* starts here", decl(k)) } else { "/* starts here".to_string() };
            if *lines <= 1 {
                // one-line block comment
                let tail = if *code_after { format!(" {}", decl(k + 1000)) } else { String::new() };
                w.put(&format!("{} and ends */{}", first, tail));
            } else {
                w.put(&first);
                for i in 1..*lines - 1 {
                    w.put(&format!(" * line {} of the comment, #define NOT 1", i));
                }
                let tail = if *code_after { format!(" {}", decl(k + 1000)) } else { String::new() };
                w.put(&format!("   ends here */{}", tail));
            }
        }
        Shift::Splice(c) => {
            // `char sp1 , \` / `sp1b \` / `;`
            if in_body {
                w.put("  uc2 = \\");
                for _ in 1..*c {
                    w.put("    1 + \\");
                }
                w.put("    2;");
            } else {
                w.put(&format!("char sp{}_{} \\", fname.replace('.', "_"), k));
                for _ in 1..*c {
                    w.put("  \\");
                }
                w.put("  ;");
            }
        }
        Shift::IfZero(c) => {
            w.put("#if 0");
            for i in 0..*c {
                w.put(&format!("this line {} is skipped ( and not even C", i));
            }
            w.put("#endif");
        }
        Shift::Define => {
            w.put(&format!("#define MAC{}_{} {}", fname.replace('.', "_"), k, k % 100));
        }
        Shift::MacroUse => {
            w.put(&format!("#define LONGNAME{}_{} 1 + 2 + 3", fname.replace('.', "_"), k));
            if in_body {
                w.put(&format!("  uc2 = LONGNAME{}_{};", fname.replace('.', "_"), k));
            } else {
                w.put(&format!("const char mu{}_{} = LONGNAME{}_{};", fname.replace('.', "_"), k, fname.replace('.', "_"), k));
            }
        }
        Shift::IncludeHeader { nested } => {
            if in_body {
                w.put("  uc3 = 3;");
                return;
            }
            let name = format!("inc{}.h", k);
            let mut hw = Writer::new(false);
            hw.put(&format!("// header {}", name));
            hw.put(&format!("char hv{};", k));
            if *nested {
                let inner = format!("inn{}.h", k);
                files.push((inner.clone(), format!("/* inner */\nchar hi{};\n\n", k)));
                hw.put(&format!("#include \"{}\"", inner));
            }
            hw.put(&format!("char hw{};", k));
            files.push((name.clone(), hw.text));
            w.put(&format!("#include \"{}\"", name));
        }
        Shift::IncludeAsm => {
            if in_body {
                w.put("  uc3 = 4;");
                return;
            }
            let name = format!("code{}.inc", k);
            files.push((name.clone(), format!("; assembler\nasmlabel{}\n\tNOP\n\tRTS\n", k)));
            w.put(&format!("#include \"{}\"", name));
        }
        Shift::Decl => {
            w.put(&decl(k));
        }
        Shift::IncludeNoNewline { asm } => {
            if in_body {
                w.put("  uc3 = 5;");
                return;
            }
            if *asm {
                let name = format!("tail{}.inc", k);
                let text = if k % 2 == 0 { format!("; assembler\nasmtail{}\n\tNOP\n\tRTS", k) } else { format!("; assembler\nasmtail{}\n\tNOP\n\tRTS\n; end", k) };
                files.push((name.clone(), text));
                w.put(&format!("#include \"{}\"", name));
            } else {
                let name = format!("tail{}.h", k);
                // the unterminated last line is code, the #endif of an include guard, or a comment
                let text = match k % 3 {
                    0 => format!("// header {}\nchar ht{};\nchar hu{};", name, k, k),
                    1 => format!("#ifndef TAIL{}_H\n#define TAIL{}_H\nchar ht{};\n#endif", k, k, k),
                    _ => format!("char ht{};\n// end of {}", k, name),
                };
                files.push((name.clone(), text));
                w.put(&format!("#include \"{}\"", name));
            }
        }
        Shift::NonAscii(n) => {
            for i in 0..*n {
                if in_body {
                    w.put("  uc2 = '\u{e9}';");
                } else {
                    w.put(&format!("const char na{}_{}_{} = '\u{e9}';", fname.replace('.', "_"), k, i));
                }
            }
        }
        Shift::SpliceIntoBlank(kind) => match kind {
            0 => {
                w.put("// the sprites are in C:\\GAME\\SPRITES\\");
                w.put("");
            }
            1 => {
                w.put(&format!("#define SB{}_{} 1 \\", fname.replace('.', "_"), k));
                w.put("");
            }
            _ => {
                if in_body {
                    w.put("  uc2 = 5 \\");
                    w.put("");
                    w.put("  ;");
                } else {
                    w.put(&format!("char sb{}_{} \\", fname.replace('.', "_"), k));
                    w.put("");
                    w.put(";");
                }
            }
        },
    }
}

fn emit_defect(w: &mut Writer, case: &Case) -> Vec<u32> {
    let mut lines = case.defect.text(case.u);
    // the offending token may start in any column, column 0 included
    let pad = match case.indent {
        0 => "",
        1 => "  ",
        2 => "\t",
        _ => "      ",
    };
    for l in lines.iter_mut() {
        if !l.starts_with('#') {
            *l = format!("{}{}", pad, l.trim_start());
        }
    }
    let mut out = vec![];
    // the offending line: the last one, except for `#if NOPE` whose #endif follows it
    let last = if case.defect == Defect::UndefinedInIf { 0 } else { lines.len() - 1 };
    for (i, l) in lines.iter().enumerate() {
        if i == last && case.splice_defect && !l.trim_start().starts_with('#') && l.contains(' ') {
            // splice the offending logical line: every physical line of it is acceptable
            let t = l.trim_end();
            let cut = t.rfind(' ').unwrap();
            out.push(w.put(&format!("{} \\", &t[..cut])));
            out.push(w.put(&format!("   {}", &t[cut + 1..])));
        } else {
            let n = w.put(l);
            if i == last {
                out.push(n);
            }
        }
    }
    out
}

pub fn build(case: &Case) -> Built {
    let mut files = vec![];
    let mut n = 0u32;
    let mut w = Writer::new(case.crlf);
    w.put("char uc1, uc2, uc3;");
    w.put("char ar1[4], ar2[4];");
    w.put("void hf2(char p) { }");
    let mut shifted = false;
    let in_header = case.place != Place::Main;
    // the defect (with the shifts before it) goes either into main.c or into a header
    let mut expect_file = "main.c".to_string();
    let mut expect_lines = vec![];
    let mut expect_included_in = None;
    if in_header {
        // main.c: a few shifts, then the include; the header holds the rest
        let half = case.before.len() / 2;
        for s in &case.before[..half] {
            emit_shift(&mut w, s, &mut n, &mut files, false, "main.c");
            shifted = true;
        }
        let hname = "defect.h".to_string();
        let inc_line = w.put(&format!("#include \"{}\"", hname));
        let mut hw = Writer::new(case.crlf);
        hw.put("// the header with the defect");
        let mut target_name = hname.clone();
        let mut outer_include = ("main.c".to_string(), inc_line);
        if case.place == Place::NestedHeader {
            // defect.h includes deep.h which holds the defect
            hw.put("char dh1;");
            let l = hw.put("#include \"deep.h\"");
            hw.put("char dh2;");
            files.push((hname.clone(), hw.text.clone()));
            hw = Writer::new(case.crlf);
            hw.put("/* deep header */");
            target_name = "deep.h".to_string();
            outer_include = (hname.clone(), l);
        }
        for s in &case.before[half..] {
            emit_shift(&mut hw, s, &mut n, &mut files, false, &target_name);
            shifted = true;
        }
        if case.defect.in_body() {
            hw.put("void hfun()");
            hw.put("{");
            hw.put("  uc1 = 1;");
            for s in &case.inside {
                emit_shift(&mut hw, s, &mut n, &mut files, true, &target_name);
                shifted = true;
            }
            expect_lines = emit_defect(&mut hw, case);
            hw.put("  uc2 = 2;");
            hw.put("}");
        } else {
            expect_lines = emit_defect(&mut hw, case);
            hw.put("char after_defect;");
        }
        files.push((target_name.clone(), hw.text));
        expect_file = target_name;
        expect_included_in = Some(outer_include);
        w.put("void main()");
        w.put("{");
        w.put("  uc1 = 1;");
        w.put("}");
    } else {
        for s in &case.before {
            emit_shift(&mut w, s, &mut n, &mut files, false, "main.c");
            shifted = true;
        }
        if !case.defect.in_body() {
            expect_lines = emit_defect(&mut w, case);
            w.put("char after_defect;");
        }
        w.put("void main()");
        w.put("{");
        w.put("  uc1 = 1;");
        if case.defect.in_body() {
            for s in &case.inside {
                emit_shift(&mut w, s, &mut n, &mut files, true, "main.c");
                shifted = true;
            }
            expect_lines = emit_defect(&mut w, case);
        }
        w.put("  uc2 = 2;");
        w.put("}");
    }
    Built { files, main: w.text, expect_file, expect_lines, expect_included_in, shifted }
}

fn gen_shift(g: &mut G) -> Shift {
    match g.below(15) {
        0 => Shift::Blank(1 + g.below(3) as u8),
        1 => Shift::LineComment,
        2 | 3 => Shift::BlockComment { lines: 1 + g.below(5) as u8, code_before: g.chance(1, 2), code_after: g.chance(1, 2) },
        4 | 5 => Shift::Splice(1 + g.below(3) as u8),
        6 => Shift::IfZero(1 + g.below(3) as u8),
        7 => Shift::Define,
        8 => Shift::MacroUse,
        9 => Shift::IncludeHeader { nested: g.chance(1, 3) },
        10 => Shift::IncludeAsm,
        11 => Shift::SpliceIntoBlank(g.below(3) as u8),
        12 => Shift::IncludeNoNewline { asm: g.chance(1, 2) },
        13 => Shift::NonAscii(1 + g.below(6) as u8),
        _ => Shift::Decl,
    }
}

pub fn gen_case(g: &mut G, ex: &Excl) -> Case {
    let nb = g.below(7);
    let ni = g.below(4);
    let defect = *g.pick(&DEFECTS);
    let mut place = match g.below(6) {
        0 | 1 => Place::Header,
        2 => Place::NestedHeader,
        _ => Place::Main,
    };
    if ex.has("parse_error_in_include_no_included_in") && defect.stage() == "syntax" {
        place = Place::Main;
    }
    Case {
        before: (0..nb).map(|_| gen_shift(g)).collect(),
        inside: (0..ni).map(|_| gen_shift(g)).collect(),
        defect,
        place,
        splice_defect: g.chance(1, 5),
        crlf: g.chance(1, 8),
        u: 1 + g.below(50) as u32,
        indent: g.weighted(&[4, 4, 1, 1]) as u8,
    }
}

pub fn check(case: &Case, st: &mut Stats, ex: &Excl) -> Result<(), String> {
    st.count("cases");
    if ex.has("parse_error_in_include_no_included_in") && case.defect.stage() == "syntax" && case.place != Place::Main {
        st.count("excluded:parse_error_in_include_no_included_in");
        return Ok(());
    }
    let b = build(case);
    let dir = tx::TempDir::new("c06");
    for (n, t) in &b.files {
        dir.write(n, t);
    }
    let mut opts = Opts::default();
    opts.include_dirs.push(dir.path());
    let out = cc::compile_str(&b.main, &opts);
    let cell = format!("{:?} x {}", case.defect, if b.shifted { "shifted" } else { "plain" });
    let describe = || {
        let mut s = format!("--- main.c ---\n{}", b.main);
        for (n, t) in &b.files {
            s.push_str(&format!("--- {} ---\n{}", n, t));
        }
        s
    };
    match &out {
        Outcome::Err(e) => match e.loc() {
            Some((file, line, inc)) => {
                if file != b.expect_file || !b.expect_lines.contains(&line) {
                    return Err(format!(
                        "C06-location: {:?} ({}) planted in {} line {:?}, reported {}:{} ({})",
                        case.defect,
                        case.defect.stage(),
                        b.expect_file,
                        b.expect_lines,
                        file,
                        line,
                        e.msg()
                    ));
                }
                if *inc != b.expect_included_in {
                    return Err(format!(
                        "C06-included-in: {:?} ({}) in {}: expected included_in {:?}, reported {:?}",
                        case.defect,
                        case.defect.stage(),
                        b.expect_file,
                        b.expect_included_in,
                        inc
                    ));
                }
            }
            None => return Err(format!("C06-unlocated: {:?} reported without a location: {:?}", case.defect, e)),
        },
        Outcome::Ok(_) => return Err(format!("C06-accepted: the planted defect {:?} was not reported at all", case.defect)),
        Outcome::Panic(p) => return Err(format!("C06-panic: {:?} makes the compiler panic: {} [{}]", case.defect, p.message, p.sig)),
    }
    st.count(&format!("cell:{}", cell));
    st.count(&format!("place:{:?}", case.place));
    if b.shifted {
        st.nontrivial(pbt::hash_str(&describe()));
        st.sample(2, || json!({"files": describe(), "expected": format!("{}:{:?} included_in {:?}", b.expect_file, b.expect_lines, b.expect_included_in)}));
    }
    Ok(())
}

pub fn run(ctx: &mut RunCtx) -> i32 {
    let cases = ctx.cases(60_000, 1_500_000);
    let (excl, known_seen) = super::activate_exclusions(ctx, "C06");
    let (stats, failures, aborted) = pbt::run_sharded(
        ctx.seed,
        "C06",
        ctx.shards,
        cases,
        2000,
        |_| {
            let ex = excl.clone();
            pbt::strategy(move |g| gen_case(g, &ex))
        },
        |case: &Case, st: &mut Stats| check(case, st, &excl),
    );
    let mut violations = super::take_regressions();
    for f in failures {
        let class = f.reason.split(':').next().unwrap_or("").to_string();
        let b = build(&f.minimal);
        violations.push(Violation {
            class,
            detail: f.reason.clone(),
            replay: json!({"property": "C06", "kind": "c06", "reason": f.reason, "source": b.main, "files": b.files, "case": f.minimal}),
        });
    }
    let cells = stats.counters.iter().filter(|(k, _)| k.starts_with("cell:")).count();
    let s = Summary {
        stats,
        rule: "a valid skeleton, 0-6 line-shifting constructs before the defect (blank lines, // and multi-line /* */ comments with \
               code before/after, splices, #if 0 regions, #define lines, macro uses, #include of C headers (also nested) and of \
               assembler files) plus 0-3 inside the function body, then exactly one planted defect of 24 kinds (preprocessor, \
               syntax, semantic, code generation) in main.c, in a header or in a nested header, optionally spliced itself, LF or \
               CR-LF; expected (file, line, included_in) computed while writing the text; non-trivial = at least one shifting \
               construct precedes the defect; distinct by hash of all files"
            .into(),
        assumptions: vec!["defects are single-line statements whose position is unambiguous".into()],
        extra: json!({ "matrix_cells_covered": cells }),
        violations,
        known_seen,
        inconclusive: aborted,
    };
    report::finish(ctx, s)
}

pub fn replay_case(v: &serde_json::Value) -> Option<(bool, String)> {
    let case: Case = serde_json::from_value(v["case"].clone()).ok()?;
    let mut st = Stats::default();
    match check(&case, &mut st, &Excl::default()) {
        Ok(()) => Some((false, format!("{:?}", st.counters))),
        Err(r) => Some((true, r)),
    }
}
