//! C18 — timing and hardware-access statements are emitted exactly.
//!
//! Three sub-checks: (T) csleep(n) takes exactly n cycles between two marker stores at every
//! optimisation level and leaves A/X/Y and all variables alone; (E) the explicit accesses
//! (load/store/strobe) to dedicated objects appear in the emulator's trace exactly as the
//! reference interpreter lists them, at -O0..-O3, and the program computes what RefC says;
//! (M) removing every csleep from a program changes nothing but time.
use crate::ast::*;
use crate::cc::{self, Outcome};
use crate::emu6502::{AccessKind, Stop};
use crate::exec::{self, Which};
use crate::gen::{Excl, GenCfg};
use crate::layout::MemClass;
use crate::pbt::{self, Reducible, Stats, G};
use crate::refc::{self, Event, Verdict};
use crate::report::{self, RunCtx, Summary, Violation};
use crate::sem::{self, Built, SemCase};
use serde::{Deserialize, Serialize};
use serde_json::json;

pub fn cfg() -> GenCfg {
    GenCfg { hw: true, max_helpers: 1, max_stmts: 7, pointers: false, ..GenCfg::default() }
}

// ------------------------------------------------------------------ (T) timing

#[derive(Debug, Clone, Serialize, Deserialize)]
pub struct Timing {
    pub before: Vec<String>,
    pub sleeps: Vec<i32>,
    pub after: Vec<String>,
    pub opt: u8,
    pub a: u8,
    pub x: u8,
    pub y: u8,
}

impl Reducible for Timing {
    fn reductions(&self) -> Vec<Timing> {
        let mut out = vec![];
        for i in 0..self.before.len() {
            let mut c = self.clone();
            c.before.remove(i);
            out.push(c);
        }
        for i in 0..self.after.len() {
            let mut c = self.clone();
            c.after.remove(i);
            out.push(c);
        }
        if self.sleeps.len() > 1 {
            for i in 0..self.sleeps.len() {
                let mut c = self.clone();
                c.sleeps.remove(i);
                out.push(c);
            }
        }
        out
    }
}

const T_STMTS: [&str; 8] = ["uc1 = 3;", "uc2 = uc1 + 1;", "X = uc1;", "Y = 2;", "uc1++;", "if (uc1) uc2 = 1;", "uc2 = X;", "uc1 = uc2 & 7;"];

pub fn gen_timing(g: &mut G) -> Timing {
    let nb = g.below(3);
    let na = g.below(3);
    let ns = 1 + g.below(3);
    Timing {
        before: (0..nb).map(|_| T_STMTS[g.below(T_STMTS.len())].to_string()).collect(),
        sleeps: (0..ns).map(|_| g.range(2, 10) as i32).collect(),
        after: (0..na).map(|_| T_STMTS[g.below(T_STMTS.len())].to_string()).collect(),
        opt: g.below(4) as u8,
        a: g.byte_biased(),
        x: g.byte_biased(),
        y: g.byte_biased(),
    }
}

fn timing_source(t: &Timing, with_sleeps: bool) -> String {
    let mut s = String::from("char uc1, uc2;\nvoid main()\n{\n");
    for b in &t.before {
        s.push_str(&format!("  {}\n", b));
    }
    // lower-case marker stores (inline asm, absolute addressing: 3 bytes)
    s.push_str("  asm(\"sta $0ff0\", 3);\n");
    if with_sleeps {
        for n in &t.sleeps {
            s.push_str(&format!("  csleep({});\n", n));
        }
    }
    s.push_str("  asm(\"sta $0ff1\", 3);\n");
    for a in &t.after {
        s.push_str(&format!("  {}\n", a));
    }
    s.push_str("}\n");
    s
}

struct TimedRun {
    elapsed: u64,
    a: u8,
    x: u8,
    y: u8,
    vars: std::collections::BTreeMap<String, Vec<u8>>,
}

fn timed_run(src: &str, t: &Timing) -> Result<Option<TimedRun>, String> {
    let cap = match cc::compile_str(src, &cc::Opts::o(t.opt)) {
        Outcome::Ok(c) => c,
        Outcome::Err(_) => return Ok(None),
        Outcome::Panic(p) => return Err(format!("C18-panic: {}", p.sig)),
    };
    let img = match exec::link(&cap, "4K", 0, Which::InUse) {
        Ok(i) => i,
        Err(e) => return Err(format!("C18-assemble: {:?}", e)),
    };
    let init = exec::Init { a: t.a, x: t.x, y: t.y, p: 0, fill: 7, ..Default::default() };
    let r = sem::run_image_watched(&img, &init, 100_000, &[(0x0ff0, 0x0ff1)]);
    if r.stop != Stop::Halt {
        return Err(format!("C18-timing: the timing program stopped with {:?}", r.stop));
    }
    let m1 = r.trace.iter().find(|a| a.addr == 0x0ff0);
    let m2 = r.trace.iter().find(|a| a.addr == 0x0ff1);
    match (m1, m2) {
        (Some(a), Some(b)) => Ok(Some(TimedRun { elapsed: b.cycle - a.cycle, a: b.value, x: r.x, y: r.y, vars: r.vars.clone() })),
        _ => Err("C18-timing: a marker store was not executed".to_string()),
    }
}

pub fn check_timing(t: &Timing, st: &mut Stats) -> Result<(), String> {
    st.count("timing_cases");
    let with = timing_source(t, true);
    let without = timing_source(t, false);
    let rw = match timed_run(&with, t)? {
        Some(r) => r,
        None => {
            st.count("timing_rejected");
            return Ok(());
        }
    };
    let ro = match timed_run(&without, t)? {
        Some(r) => r,
        None => return Ok(()),
    };
    let want: u64 = t.sleeps.iter().map(|n| *n as u64).sum();
    let got = rw.elapsed as i64 - ro.elapsed as i64;
    if got != want as i64 {
        return Err(format!("C18-cycles: csleep{:?} at -O{} takes {} cycles between the markers instead of {}", t.sleeps, t.opt, got, want));
    }
    // the second marker stores A: its value shows whether A survived the sleep
    if rw.a != ro.a || rw.x != ro.x || rw.y != ro.y {
        return Err(format!(
            "C18-registers: csleep{:?} at -O{} changes a register: A {}->{} X {}->{} Y {}->{}",
            t.sleeps, t.opt, ro.a, rw.a, ro.x, rw.x, ro.y, rw.y
        ));
    }
    if rw.vars != ro.vars {
        return Err(format!("C18-variables: csleep{:?} at -O{} changes a variable: {:?} vs {:?}", t.sleeps, t.opt, ro.vars, rw.vars));
    }
    for n in &t.sleeps {
        st.count(&format!("csleep({})@-O{}", n, t.opt));
    }
    st.nontrivial(pbt::hash_str(&format!("{}|{}", with, t.opt)));
    st.sample(1, || json!({"kind": "timing", "source": with, "opt": t.opt, "cycles": want}));
    Ok(())
}

// ------------------------------------------------------------------ (E) events and semantics, (M) csleep removal

fn strip_csleep(s: &Stmt) -> Stmt {
    match s {
        Stmt::Csleep(_) => Stmt::Empty,
        Stmt::Block(b) => Stmt::Block(b.iter().map(strip_csleep).collect()),
        Stmt::If(c, a, b) => Stmt::If(c.clone(), Box::new(strip_csleep(a)), b.as_ref().map(|b| Box::new(strip_csleep(b)))),
        Stmt::While(c, b) => Stmt::While(c.clone(), Box::new(strip_csleep(b))),
        Stmt::DoWhile(b, c) => Stmt::DoWhile(Box::new(strip_csleep(b)), c.clone()),
        Stmt::For(i, c, u, b) => Stmt::For(i.clone(), c.clone(), u.clone(), Box::new(strip_csleep(b))),
        Stmt::Switch(e, cs, d) => Stmt::Switch(
            e.clone(),
            cs.iter().map(|c| Case { labels: c.labels.clone(), body: c.body.iter().map(strip_csleep).collect() }).collect(),
            d.as_ref().map(|d| d.iter().map(strip_csleep).collect()),
        ),
        Stmt::Label(l, x) => Stmt::Label(l.clone(), Box::new(strip_csleep(x))),
        other => other.clone(),
    }
}

fn has_stmt(p: &Program, f: &dyn Fn(&Stmt) -> bool) -> bool {
    fn walk(s: &Stmt, f: &dyn Fn(&Stmt) -> bool) -> bool {
        if f(s) {
            return true;
        }
        match s {
            Stmt::Block(b) => b.iter().any(|x| walk(x, f)),
            Stmt::If(_, a, b) => walk(a, f) || b.as_ref().map(|b| walk(b, f)).unwrap_or(false),
            Stmt::While(_, b) | Stmt::DoWhile(b, _) | Stmt::For(_, _, _, b) | Stmt::Label(_, b) => walk(b, f),
            Stmt::Switch(_, cs, d) => {
                cs.iter().any(|c| c.body.iter().any(|x| walk(x, f))) || d.as_ref().map(|d| d.iter().any(|x| walk(x, f))).unwrap_or(false)
            }
            _ => false,
        }
    }
    p.funcs.iter().any(|fun| fun.body.iter().any(|s| walk(s, f)))
}

/// csleep arguments outside 2..=10 are rejected by the compiler: such programs say nothing here
fn bad_sleep(p: &Program) -> bool {
    has_stmt(p, &|s| matches!(s, Stmt::Csleep(n) if !(2..=10).contains(n)))
}

pub fn check_program(case: &SemCase, st: &mut Stats, ex: &Excl, levels: &[u8]) -> Result<(), String> {
    st.count("programs");
    if crate::excl::find_excluded(&case.prog, ex).is_some() {
        st.count("excluded_program");
        return Ok(());
    }
    let src = case.source();
    if bad_sleep(&case.prog) {
        // must be rejected with an error, at every level
        match cc::compile_str(&src, &case.opts()) {
            Outcome::Ok(_) => return Err("C18-accepted: a csleep() argument outside 2..10 was accepted".to_string()),
            Outcome::Panic(p) => return Err(format!("C18-panic: {}", p.sig)),
            Outcome::Err(_) => {
                st.count("unsupported_csleep_rejected");
                return Ok(());
            }
        }
    }
    // (E) per optimisation level: RefC semantics + event trace on the dedicated objects
    let mut any_events = false;
    for lvl in levels {
        let c = SemCase { opt: *lvl, ..case.clone() };
        let (_, img) = match sem::build(&src, &c.opts(), c.layout_shuffle) {
            Built::Ok(cap, img) => (cap, img),
            Built::Rejected(e) => {
                st.count("rejected");
                st.count(&format!("rej:{}", sem::msg_key(&e.msg())));
                return Ok(());
            }
            Built::Panic(p) => {
                st.count(&format!("panic(routed to C16):{}", p.sig));
                return Ok(());
            }
            _ => {
                st.count("not_linkable");
                return Ok(());
            }
        };
        // addresses of the dedicated objects
        let mut watch: Vec<(u16, u16)> = vec![];
        for o in &img.layout.objects {
            if o.name.starts_with("hv") || (o.name.starts_with("HR") && o.class == MemClass::Reg) {
                watch.push((o.addr, o.addr + o.bytes.max(1) - 1));
            }
        }
        for (vi, init) in c.inits.iter().enumerate() {
            st.count("vectors");
            let fs = match sem::reference(&c, &img, init, ex) {
                Verdict::Agreed(fs) => fs,
                Verdict::Ambiguous => {
                    st.count("ambiguous");
                    continue;
                }
                Verdict::Excluded(r) => {
                    st.count(&format!("excluded:{}", r));
                    continue;
                }
                Verdict::Undefined(_) => {
                    st.count("ub");
                    continue;
                }
                Verdict::Timeout => {
                    st.count("refc_timeout");
                    continue;
                }
                Verdict::Unsupported(s) => {
                    st.count(&format!("unsup:{}", sem::msg_key(&s)));
                    continue;
                }
            };
            let r = sem::run_image_watched(&img, init, sem::cycle_budget(fs.steps), &watch);
            if r.stop != Stop::Halt {
                return Err(format!("C18-termination: -O{}: emitted code stopped with {:?}; input #{}", lvl, r.stop, vi));
            }
            st.count("compared");
            let actual = sem::observable(&c.prog, &r);
            if let Some(d) = sem::diff_states(&fs.globals, fs.x, fs.y, &actual, r.x, r.y, &fs.unspecified) {
                return Err(format!("C18-semantics: -O{}: {}; input #{}", lvl, d, vi));
            }
            // expected accesses, in source order, restricted to the dedicated objects
            let dedicated = |a: u16| watch.iter().any(|w| a >= w.0 && a <= w.1);
            let want: Vec<(char, u16)> = fs
                .events
                .iter()
                .filter_map(|e| match e {
                    Event::Load(a) if dedicated(*a) => Some(('R', *a)),
                    Event::Store(a) | Event::Strobe(a) if dedicated(*a) => Some(('W', *a)),
                    _ => None,
                })
                .collect();
            let got: Vec<(char, u16)> = r
                .trace
                .iter()
                .map(|a| (if matches!(a.kind, AccessKind::Read | AccessKind::RmwRead) { 'R' } else { 'W' }, a.addr))
                .collect();
            if r.trace.len() >= 4000 {
                st.count("trace_truncated");
                continue;
            }
            if want != got {
                let k = (0..want.len().max(got.len())).find(|i| want.get(*i) != got.get(*i)).unwrap_or(0);
                return Err(format!(
                    "C18-accesses: -O{}: explicit access #{} differs: the source performs {:?}, the emitted code {:?} ({} expected, {} executed); input #{}",
                    lvl,
                    k,
                    want.get(k),
                    got.get(k),
                    want.len(),
                    got.len(),
                    vi
                ));
            }
            if !want.is_empty() {
                any_events = true;
            }
        }
    }
    // (M) the same program without its csleep statements ends in the same state
    let has_sleep = has_stmt(&case.prog, &|s| matches!(s, Stmt::Csleep(_)));
    if has_sleep {
        let mut q = case.prog.clone();
        for f in q.funcs.iter_mut() {
            f.body = f.body.iter().map(strip_csleep).collect();
        }
        let qc = SemCase { prog: q.clone(), ..case.clone() };
        let a = sem::build_side(&qc.source(), &case.opts(), case.layout_shuffle);
        let b = sem::build_side(&src, &case.opts(), case.layout_shuffle);
        if let (sem::Side::Ok(_, ia), sem::Side::Ok(_, ib)) = (a, b) {
            let sc = case.signed_chars;
            sem::co_execute_f(&q, &ia, &ib, &case.inits, st, "C18-sleep", ("without csleep", "with csleep"), &|init| {
                sem::outside_agreement_domain(&q, &ia, init, sc, ex)
            })?;
            st.count("csleep_removal_compared");
        }
    }
    let adjacent = case.labels.iter().any(|l| {
        matches!(
            l.as_str(),
            "load-store-same-operand"
                | "load-register-then-strobe"
                | "explicit-next-to-ordinary"
                | "csleep-between-assignment-and-test"
                | "two-loads"
                | "lone-load"
                | "store-after-ordinary"
                | "load-of-known-value"
                | "asm-only-branch"
        )
    });
    for l in &case.labels {
        st.count(&format!("label:{}", l));
    }
    if adjacent && (any_events || has_sleep) {
        st.nontrivial(pbt::hash_str(&src));
        st.sample(2, || json!({"kind": "program", "source": src, "labels": case.labels}));
    }
    let _ = refc::READINGS;
    Ok(())
}

#[derive(Debug, Clone, Serialize, Deserialize)]
pub enum Case18 {
    T(Timing),
    P(SemCase),
}

impl Reducible for Case18 {
    fn reductions(&self) -> Vec<Case18> {
        match self {
            Case18::T(t) => t.reductions().into_iter().map(Case18::T).collect(),
            Case18::P(p) => p.reductions().into_iter().map(Case18::P).collect(),
        }
    }
}

pub fn run(ctx: &mut RunCtx) -> i32 {
    let cases = ctx.cases(24_000, 600_000);
    let n_inits = ctx.tier.pick(4, 12);
    let (excl, known_seen) = super::activate_exclusions(ctx, "C18");
    let mut cfg = cfg();
    cfg.excl = excl.clone();
    let (stats, failures, aborted) = pbt::run_sharded(
        ctx.seed,
        "C18",
        ctx.shards,
        cases,
        3000,
        |_| {
            let cfg = cfg.clone();
            pbt::strategy(move |g| {
                if g.chance(1, 4) {
                    Case18::T(gen_timing(g))
                } else {
                    Case18::P(sem::gen_case(g, &cfg, n_inits, &[0, 1, 2, 3], false))
                }
            })
        },
        |case: &Case18, st: &mut Stats| match case {
            Case18::T(t) => check_timing(t, st),
            // every program is checked at -O0 and at its own level (1, 2 or 3; -O1 when it drew 0)
            Case18::P(p) => check_program(p, st, &excl, &[0, if p.opt == 0 { 1 } else { p.opt }]),
        },
    );
    let (mut stats, mut aborted) = (stats, aborted);
    // (P) protected instructions survive optimize(): the optimizer driven through its public API
    let raw_cases = ctx.cases(60_000, 3_000_000);
    let (raw_stats, raw_failures, raw_aborted) = pbt::run_sharded(
        ctx.seed,
        "C18-raw",
        ctx.shards,
        raw_cases,
        2000,
        |_| pbt::strategy(super::rawopt::gen_case),
        |case: &super::rawopt::RawCase, st: &mut Stats| super::rawopt::check(case, st, 2, "C18"),
    );
    stats.merge(&raw_stats);
    aborted.extend(raw_aborted);
    let mut violations = super::take_regressions();
    for f in raw_failures {
        let class = f.reason.split(':').next().unwrap_or("").to_string();
        violations.push(Violation {
            class,
            detail: f.reason.clone(),
            replay: json!({"property": "C18", "kind": "rawopt", "which": 2, "reason": f.reason, "case": f.minimal}),
        });
    }
    for f in failures {
        let class = f.reason.split(':').next().unwrap_or("").to_string();
        let source = match &f.minimal {
            Case18::T(t) => timing_source(t, true),
            Case18::P(p) => p.source(),
        };
        violations.push(Violation {
            class,
            detail: f.reason.clone(),
            replay: json!({"property": "C18", "kind": "c18", "reason": f.reason, "source": source, "case": f.minimal}),
        });
    }
    let s = Summary {
        stats,
        rule: "(T) csleep(n), n in 2..10, one to three in a row between two marker stores, at -O0..-O3: the cycle count between the \
               markers minus that of the same program without csleep must equal the sum of the arguments, and A, X, Y and all \
               variables must be unchanged; (E) generated programs mixing ordinary code with csleep/load/store/strobe on dedicated \
               variables and register addresses (pairs on the same operand, register read followed by strobe, explicit access next \
               to an ordinary assignment of the same variable, csleep between a register assignment and its test), at -O0 and one of \
               -O1..-O3: final state = RefC and the trace of accesses to the dedicated objects = RefC's event list; (M) the program \
               without its csleep statements ends in the same state; (P) random instruction lists built through AssemblyCode's \
               public API with some instructions marked protected (what load/store/strobe/csleep emit): after optimize() every \
               protected instruction is still there, in order; non-trivial = timing case, or a program with an adjacency label \
               that executes explicit accesses or contains csleep; distinct by hash of source (+ level)"
            .into(),
        assumptions: vec![
            "cycle counts from emu6502's table of official opcodes (page-crossing penalties included)".into(),
            "flags are not 'register values' in the sense of the property".into(),
        ],
        extra: json!({}),
        violations,
        known_seen,
        inconclusive: aborted,
    };
    report::finish(ctx, s)
}

pub fn replay_case(v: &serde_json::Value) -> Option<(bool, String)> {
    let case: Case18 = serde_json::from_value(v["case"].clone()).ok()?;
    let mut st = Stats::default();
    let r = match &case {
        Case18::T(t) => check_timing(t, &mut st),
        Case18::P(p) => check_program(p, &mut st, &Excl::default(), &[0, 1, 2, 3]),
    };
    match r {
        Ok(()) => Some((false, format!("{:?}", st.counters))),
        Err(r) => Some((true, r)),
    }
}
