//! C02 — optimisation never changes behaviour (co-execution of -O0 against -O1/-O2/-O3).
use crate::gen::{Excl, GenCfg};
use crate::pbt::{self, Stats};
use crate::report::{self, RunCtx, Summary, Violation};
use crate::sem::{self, SemCase, Side};
use serde_json::json;

pub fn cfg() -> GenCfg {
    GenCfg { opt_stress: true, asm_menu: true, addr_low_byte: true, hw: true, inline_permille: 200, ..GenCfg::default() }
}

pub fn check(case: &SemCase, st: &mut Stats, ex: &Excl) -> Result<(), String> {
    let src = case.source();
    st.count("programs");
    for r in &case.regenerated {
        st.count(&format!("excluded:{}", r));
    }
    if let Some(rule) = crate::excl::find_excluded(&case.prog, ex) {
        st.count(&format!("excluded_in_shrink:{}", rule));
        return Ok(());
    }
    let base = match sem::build_side(&src, &case.with_opt(0), case.layout_shuffle) {
        Side::Ok(c, i) => (c, i),
        Side::Rejected(m) => {
            st.count("rejected");
            st.count(&format!("rej:{}", m));
            // an option must not change acceptance
            if let Side::Ok(..) = sem::build_side(&src, &case.with_opt(1), case.layout_shuffle) {
                return Err(format!("C02-acceptance: rejected at -O0 ({}) but accepted at -O1", m));
            }
            return Ok(());
        }
        Side::Panic(p) => {
            st.count(&format!("panic:{}", p));
            return Ok(());
        }
        Side::Unlinkable(u) => {
            st.count("unlinkable(routed to C13)");
            st.count(&format!("unlinkable:{}", u.chars().take(60).collect::<String>()));
            return Ok(());
        }
    };
    st.count("accepted");
    for l in &case.labels {
        st.count(&format!("label:{}", l));
    }
    // -O1 always; -O2/-O3 on the case's own choice (case.opt carries 1, 2 or 3)
    let mut levels = vec![1u8];
    if case.opt > 1 {
        levels.push(case.opt);
    }
    let mut any_removed = false;
    let mut changed = 0;
    for lvl in levels {
        let opt = match sem::build_side(&src, &case.with_opt(lvl), case.layout_shuffle) {
            Side::Ok(c, i) => (c, i),
            Side::Rejected(m) => return Err(format!("C02-acceptance: accepted at -O0 but rejected at -O{} ({})", lvl, m)),
            Side::Panic(p) => return Err(format!("C02-acceptance: accepted at -O0 but panics at -O{} ({})", lvl, p)),
            Side::Unlinkable(u) => return Err(format!("C02-unlinkable: assembles at -O0 but not at -O{}: {}", lvl, u)),
        };
        if opt.0.funcs.iter().any(|f| f.opt_removed > 0) {
            any_removed = true;
        }
        st.count(&format!("level:-O{}", lvl));
        let names = ("-O0".to_string(), format!("-O{}", lvl));
        let sc = case.signed_chars;
        changed += sem::co_execute_f(&case.prog, &base.1, &opt.1, &case.inits, st, "C02", (&names.0, &names.1), &|init| {
            sem::source_is_undefined(&case.prog, &base.1, init, sc)
        })?;
    }
    if any_removed {
        st.count("optimizer_removed_something");
    }
    if any_removed && changed > 0 {
        st.count("nontrivial_programs");
        st.nontrivial(pbt::hash_str(&format!("{}|{:?}", src, case.inits.first())));
        st.sample(2, || case.describe());
    }
    Ok(())
}

pub fn run(ctx: &mut RunCtx) -> i32 {
    let cases = ctx.cases(20_000, 600_000);
    let n_inits = ctx.tier.pick(6, 16);
    let (excl, known_seen) = super::activate_exclusions(ctx, "C02");
    let mut cfg = cfg();
    cfg.excl = excl.clone();
    let (stats, failures, aborted) = pbt::run_sharded(
        ctx.seed,
        "C02",
        ctx.shards,
        cases,
        4000,
        |shard| {
            let mut cfg = cfg.clone();
            // a quarter of the shards place variables in split-port cartridge RAM (an operand then
            // has two spellings, which the optimizer's bookkeeping must treat as one location)
            if shard % 4 == 3 {
                cfg.split_permille = 300;
                cfg.split_qual = if shard % 8 == 3 { crate::ast::MemQual::Superchip } else { crate::ast::MemQual::Bank(1) };
            }
            // opt: 1 (90 %), 2 or 3 (10 %): the extra level that is compared besides -O1
            pbt::strategy(move |g| sem::gen_case(g, &cfg, n_inits, &[1, 1, 1, 1, 1, 1, 1, 1, 1, 1, 1, 1, 1, 1, 1, 1, 1, 1, 2, 3], false))
        },
        |case: &SemCase, st: &mut Stats| check(case, st, &excl),
    );
    let mut violations = super::take_regressions();
    for f in failures {
        let class = f.reason.split(':').next().unwrap_or("").to_string();
        violations.push(Violation {
            class,
            detail: f.reason.clone(),
            replay: json!({
                "property": "C02",
                "kind": "sem-opt",
                "reason": f.reason,
                "source": f.minimal.source(),
                "options": f.minimal.opts().describe(),
                "case": f.minimal,
            }),
        });
    }
    let s = Summary {
        stats,
        rule: "generated programs (optimizer-stress patterns and inline asm from a fixed menu weighted up), compiled at -O0 and \
               at -O1 (always) plus -O2/-O3 (10 %), co-executed from K identical random initial states; non-trivial = the \
               optimizer removed at least one instruction and the -O0 run changes the compared state; distinct by hash of source."
            .into(),
        assumptions: vec!["own assembler asm6502 and emulator emu6502 are correct".into(), "-O0 output is the reference".into()],
        extra: json!({}),
        violations,
        known_seen,
        inconclusive: aborted,
    };
    report::finish(ctx, s)
}

pub fn replay_case(v: &serde_json::Value) -> Option<(bool, String)> {
    let case: SemCase = serde_json::from_value(v["case"].clone()).ok()?;
    let mut st = Stats::default();
    match check(&case, &mut st, &Excl::default()) {
        Ok(()) => Some((false, format!("{:?}", st.counters))),
        Err(r) => Some((true, r)),
    }
}
