//! C16 — compilation is total: a result or a located error, never a crash or a hang.
//!
//! Inputs are compiled in a worker process (so that a hang, an abort or a stack overflow can
//! be observed and survived); the parent feeds inputs over a pipe and watches the answers.
use crate::cc::{self, CcError, Opts, Outcome};
use crate::checks::c11::tokenize;
use crate::gen::GenCfg;
use crate::pbt::{self, Reducible, Stats, G};
use crate::report::{self, RunCtx, Summary, Violation};
use crate::sem;
use serde::{Deserialize, Serialize};
use serde_json::json;
use std::io::{BufRead, BufReader, Read, Write};
use std::process::{Child, ChildStdin, Command, Stdio};
use std::sync::mpsc::{channel, Receiver};
use std::time::Duration;

#[derive(Debug, Clone, Serialize, Deserialize)]
pub struct Case {
    pub text: String,
    pub opt: u8,
    pub mutations: Vec<String>,
}

impl Reducible for Case {
    fn reductions(&self) -> Vec<Case> {
        let mut out = vec![];
        let lines: Vec<&str> = self.text.split_inclusive('\n').collect();
        if lines.len() > 1 {
            // halves, then single lines
            let h = lines.len() / 2;
            out.push(Case { text: lines[..h].concat(), ..self.clone() });
            out.push(Case { text: lines[h..].concat(), ..self.clone() });
            if lines.len() <= 60 {
                for i in 0..lines.len() {
                    let mut v = lines.clone();
                    v.remove(i);
                    out.push(Case { text: v.concat(), ..self.clone() });
                }
            }
        }
        // drop single tokens of short texts
        if self.text.len() < 400 {
            let toks = tokenize(&self.text);
            if toks.len() > 1 && toks.len() < 80 {
                for i in 0..toks.len() {
                    let mut s = String::new();
                    for (j, t) in toks.iter().enumerate() {
                        if j == i {
                            continue;
                        }
                        if t.newline_before {
                            s.push('\n');
                        } else if t.space_before {
                            s.push(' ');
                        }
                        s.push_str(&t.text);
                    }
                    s.push('\n');
                    out.push(Case { text: s, ..self.clone() });
                }
            }
        }
        out
    }
}

// ------------------------------------------------------------------ worker protocol

pub fn worker_main() -> i32 {
    // memory cap: a runaway allocation fails (abort) instead of taking the machine down
    unsafe {
        let lim = libc::rlimit { rlim_cur: 3 << 30, rlim_max: 3 << 30 };
        libc::setrlimit(libc::RLIMIT_AS, &lim);
    }
    let stdin = std::io::stdin();
    let mut inp = stdin.lock();
    let stdout = std::io::stdout();
    loop {
        let mut hdr = [0u8; 5];
        if inp.read_exact(&mut hdr).is_err() {
            return 0;
        }
        let len = u32::from_le_bytes([hdr[0], hdr[1], hdr[2], hdr[3]]) as usize;
        let opt = hdr[4];
        let mut buf = vec![0u8; len];
        if inp.read_exact(&mut buf).is_err() {
            return 0;
        }
        let o = opts_of(opt);
        let r = cc::compile_bytes(&buf, &o);
        let line = match r {
            Outcome::Ok(_) => "ok".to_string(),
            Outcome::Err(e) => match &e {
                CcError::Syntax { filename, line, .. } | CcError::Compiler { filename, line, .. } => {
                    format!("err\t{}\t{}\t{}", filename.replace(['\t', '\n'], " "), line, e.msg().replace(['\t', '\n'], " "))
                }
                other => format!("errnoloc\t{}", format!("{:?}", other).replace(['\t', '\n'], " ")),
            },
            Outcome::Panic(p) => format!("panic\t{}\t{}", p.sig.replace(['\t', '\n'], " "), p.message.replace(['\t', '\n'], " ")),
        };
        let mut so = stdout.lock();
        // a marker keeps the answer apart from anything the compiler prints itself
        let _ = writeln!(so, "\u{1}ANSWER\t{}", line);
        let _ = so.flush();
    }
}

/// option byte of a case: bits 0-1 optimisation level, bit 2 --insert-code, bit 3 --fsigned_char,
/// bits 4-5 bank switching scheme of the build (4K, 3E, 3EP, SuperGame)
pub fn opts_of(opt: u8) -> Opts {
    let mut o = Opts::o(opt & 3);
    o.insert_code = opt & 4 != 0;
    o.signed_chars = opt & 8 != 0;
    o.scheme = match (opt >> 4) & 3 {
        1 => "3E",
        2 => "3EP",
        3 => "SuperGame",
        _ => "4K",
    }
    .to_string();
    o.filename = "main.c".into();
    // the files that inputs may include (headers, assembler files, one without final newline)
    o.include_dirs = vec![report::verif_root().join("corpus/include").to_string_lossy().to_string()];
    o
}

/// the files of /verif/corpus/include with their number of lines
pub const INCLUDABLE: [&str; 5] = ["c16_defs.h", "c16_code.asm", "c16_data.inc", "c16_noeol.h", "c16_self.h"];

fn include_lines(name: &str) -> Option<u32> {
    let t = std::fs::read_to_string(report::verif_root().join("corpus/include").join(name)).ok()?;
    Some(t.split('\n').count() as u32)
}

pub struct Worker {
    child: Child,
    stdin: ChildStdin,
    rx: Receiver<Option<String>>,
}

#[derive(Debug, Clone, PartialEq)]
pub enum Answer {
    Ok,
    Err { file: String, line: u32, msg: String },
    ErrNoLoc(String),
    Panic { sig: String, msg: String },
    Hang,
    Died(String),
}

impl Worker {
    pub fn spawn() -> Option<Worker> {
        let exe = std::env::current_exe().ok()?;
        let dir = crate::tx::TempDir::new("c16w");
        let mut child = Command::new(exe)
            .arg("worker-c16")
            .current_dir(dir.path())
            .stdin(Stdio::piped())
            .stdout(Stdio::piped())
            .stderr(Stdio::null())
            .spawn()
            .ok()?;
        // the (empty) working directory can go as soon as the child has started in it
        drop(dir);
        let stdin = child.stdin.take()?;
        let stdout = child.stdout.take()?;
        let (tx, rx) = channel();
        std::thread::spawn(move || {
            let mut r = BufReader::new(stdout);
            loop {
                let mut line = String::new();
                match r.read_line(&mut line) {
                    Ok(0) | Err(_) => {
                        let _ = tx.send(None);
                        return;
                    }
                    Ok(_) => {
                        if let Some(rest) = line.strip_prefix("\u{1}ANSWER\t") {
                            if tx.send(Some(rest.trim_end().to_string())).is_err() {
                                return;
                            }
                        }
                    }
                }
            }
        });
        Some(Worker { child, stdin, rx })
    }

    pub fn ask(&mut self, text: &[u8], opt: u8, timeout: Duration) -> Answer {
        let mut msg = Vec::with_capacity(text.len() + 5);
        msg.extend_from_slice(&(text.len() as u32).to_le_bytes());
        msg.push(opt);
        msg.extend_from_slice(text);
        if self.stdin.write_all(&msg).is_err() || self.stdin.flush().is_err() {
            return Answer::Died(self.exit_description());
        }
        match self.rx.recv_timeout(timeout) {
            Ok(Some(l)) => {
                let f: Vec<&str> = l.split('\t').collect();
                match f[0] {
                    "ok" => Answer::Ok,
                    "err" => Answer::Err {
                        file: f.get(1).unwrap_or(&"").to_string(),
                        line: f.get(2).and_then(|x| x.parse().ok()).unwrap_or(0),
                        msg: f.get(3).unwrap_or(&"").to_string(),
                    },
                    "errnoloc" => Answer::ErrNoLoc(f.get(1).unwrap_or(&"").to_string()),
                    "panic" => Answer::Panic { sig: f.get(1).unwrap_or(&"").to_string(), msg: f.get(2).unwrap_or(&"").to_string() },
                    _ => Answer::Died(format!("garbled answer {:?}", l)),
                }
            }
            Ok(None) => Answer::Died(self.exit_description()),
            Err(_) => {
                let _ = self.child.kill();
                let _ = self.child.wait();
                Answer::Hang
            }
        }
    }

    fn exit_description(&mut self) -> String {
        match self.child.wait() {
            Ok(st) => {
                use std::os::unix::process::ExitStatusExt;
                match st.signal() {
                    Some(11) => "killed by SIGSEGV (stack overflow)".to_string(),
                    Some(6) => "killed by SIGABRT (abort / out of memory)".to_string(),
                    Some(s) => format!("killed by signal {}", s),
                    None => format!("exited with {:?}", st.code()),
                }
            }
            Err(e) => format!("wait failed: {}", e),
        }
    }
}

impl Drop for Worker {
    fn drop(&mut self) {
        let _ = self.child.kill();
        let _ = self.child.wait();
    }
}

thread_local! {
    static WORKER: std::cell::RefCell<Option<Worker>> = std::cell::RefCell::new(None);
}

pub fn ask(text: &[u8], opt: u8, timeout: Duration) -> Option<Answer> {
    WORKER.with(|w| {
        let mut w = w.borrow_mut();
        if w.is_none() {
            *w = Worker::spawn();
        }
        let a = w.as_mut()?.ask(text, opt, timeout);
        if matches!(a, Answer::Hang | Answer::Died(_)) {
            *w = None; // respawn next time
        }
        Some(a)
    })
}

// ------------------------------------------------------------------ generation

const VOCAB: [&str; 64] = [
    "char", "short", "int", "unsigned", "signed", "const", "void", "if", "else", "for", "while", "do", "switch", "case", "default",
    "break", "continue", "return", "goto", "inline", "interrupt", "sizeof", "asm", "load", "store", "strobe", "csleep", "bank1",
    "superchip", "aligned", "{", "}", "(", ")", "[", "]", ";", ",", ":", "?", "=", "==", "+", "-", "*", "/", "&", "|", "^", "~",
    "!", "<", ">", "<<", ">>", "++", "--", "&&", "||", "0", "1", "255", "X", "Y",
];

const LITERALS: [&str; 22] = [
    "@99@", "@0@", "\"a\"", "'\u{e9}'", "\"\u{20ac}\"", "/* \u{e9}t\u{e9} */", "bank99999999999", "uc1[\"a\"]",
    "99999999999", "0xfffffffff", "0777777777777", "2147483648", "-2147483648", "0x", "08", "1e5", "'", "''", "'ab'", "\"", "\"\\", "1/0",
];

const DIRECTIVES: [&str; 16] = [
    "#if", "#if 1", "#ifdef", "#ifndef X", "#else", "#elif", "#endif", "#define", "#define XX XX+1", "#define F(a) F(a)", "#undef",
    "#include", "#include \"", "#error", "#", "#define X X X",
];

pub fn corpus() -> Vec<String> {
    let mut out = vec![];
    // hand-written programs of /verif/corpus and the demonstration inputs kept with the seeded
    // changes (independent authors, many constructs the generator does not produce)
    let root = report::verif_root();
    let mut files: Vec<std::path::PathBuf> = vec![];
    if let Ok(rd) = std::fs::read_dir(root.join("corpus")) {
        files.extend(rd.flatten().map(|e| e.path()));
    }
    if let Ok(rd) = std::fs::read_dir(root.join("seeded")) {
        for d in rd.flatten() {
            if let Ok(inner) = std::fs::read_dir(d.path()) {
                files.extend(inner.flatten().map(|e| e.path()));
            }
        }
    }
    files.sort();
    for f in files {
        if f.extension().map(|e| e == "c").unwrap_or(false) {
            if let Ok(t) = std::fs::read_to_string(&f) {
                if t.len() < 4000 && !t.contains("#include") {
                    out.push(t);
                }
            }
        }
    }
    // the inputs of the repository's own tests: `let input = "...";`
    if let Ok(s) = std::fs::read_to_string("/repo/src/lib.rs") {
        let mut rest = s.as_str();
        while let Some(i) = rest.find("let input = \"") {
            let body = &rest[i + 13..];
            let mut text = String::new();
            let mut chars = body.chars();
            let mut closed = false;
            while let Some(c) = chars.next() {
                match c {
                    '\\' => match chars.next() {
                        Some('n') => text.push('\n'),
                        Some('t') => text.push('\t'),
                        Some('"') => text.push('"'),
                        Some('\\') => text.push('\\'),
                        Some('\n') => {
                            // line continuation in a Rust string: skip leading blanks
                            let mut peek = chars.clone();
                            while let Some(n) = peek.next() {
                                if n == ' ' || n == '\t' {
                                    chars.next();
                                } else {
                                    break;
                                }
                            }
                        }
                        Some(o) => {
                            text.push('\\');
                            text.push(o)
                        }
                        None => {}
                    },
                    '"' => {
                        closed = true;
                        break;
                    }
                    o => text.push(o),
                }
            }
            if closed && text.len() < 4000 {
                out.push(text);
            }
            rest = &rest[i + 13..];
        }
    }
    out
}

fn join(toks: &[crate::checks::c11::Tok]) -> String {
    let mut s = String::new();
    for t in toks {
        if t.newline_before {
            s.push('\n');
        } else if t.space_before {
            s.push(' ');
        }
        s.push_str(&t.text);
    }
    s.push('\n');
    s
}

/// the generator configurations of the other checks: whatever they feed the compiler (and would
/// only count as "panic routed to C16") is fed here too, unmutated
fn family_cfg(g: &mut G) -> (GenCfg, &'static str) {
    let k = g.below(16);
    match g.below(10) {
        0 => (super::c01::cfg(), "C01"),
        1 => (super::c02::cfg(), "C02"),
        2 => (super::c03::cfg(), "C03"),
        3 => (super::c04::cfg(k), "C04"),
        4 => (super::c12::cfg(), "C12"),
        5 => (super::c13::cfg(k), "C13"),
        6 => (super::c14::cfg(), "C14"),
        7 => (super::c15::cfg(), "C15"),
        8 => (super::c17::cfg(k), "C17"),
        _ => (super::c18::cfg(), "C18"),
    }
}

pub fn gen_case(g: &mut G, corpus: &[String], cfg: &GenCfg) -> Case {
    if g.chance(1, 4) {
        let (fcfg, name) = family_cfg(g);
        let c = sem::gen_case(g, &fcfg, 0, &[0, 1, 2, 3], true);
        let mut opt = c.opt & 3;
        if c.signed_chars {
            opt |= 8;
        }
        if g.chance(1, 4) {
            opt |= 4;
        }
        // one program in four is built for another bank switching scheme than the one it was generated for
        if g.chance(1, 4) {
            opt |= (g.below(4) as u8) << 4;
        }
        return Case { text: c.source(), opt, mutations: vec![format!("unmutated program of the {} generator", name)] };
    }
    if g.chance(1, 60) {
        // many macros (the tables hold 100 each) with #undef / redefinition around the boundary
        let n = 97 + g.below(12);
        let mut t = String::new();
        for i in 0..n {
            if g.chance(1, 15) {
                t.push_str(&format!("#define K{}(a, b) ((a) + (b) + {})\n", i, i));
            } else {
                t.push_str(&format!("#define K{} {}\n", i, i % 200));
            }
        }
        let mut muts = vec![format!("{} macros", n)];
        for _ in 0..1 + g.below(4) {
            let j = if g.chance(1, 3) { g.below(8) } else { (94 + g.below(12)).min(n - 1) };
            t.push_str(&format!("#undef K{}\n", j));
            muts.push(format!("#undef K{}", j));
            if g.chance(1, 3) {
                t.push_str(&format!("#define K{} {}\n", j, g.below(100)));
            }
        }
        t.push_str(&format!("char v;\nvoid main()\n{{\n  v = K{} + K{};\n}}\n", 10 + g.below(60), 90 + g.below(5)));
        return Case { text: t, opt: g.below(4) as u8, mutations: muts };
    }
    if g.chance(1, 40) {
        // an input that includes a header, an assembler file or a file without final newline, and ends with
        // a line that makes the compiler report something (the line tables must cover the whole text)
        let inc = *g.pick(&INCLUDABLE);
        let mut t = String::new();
        if g.chance(1, 2) {
            t.push_str("char before;\n");
        }
        t.push_str(&format!("#include \"{}\"\n", inc));
        let base = sem::gen_case(g, cfg, 0, &[1], false).source();
        if g.chance(1, 2) {
            t.push_str(&base);
        } else {
            t.push_str("char v;\nvoid main()\n{\n  v = 1;\n}\n");
        }
        let tail = *g.pick(&[
            "void zz1() { X = 300; }",
            "void zz2() { undeclared_name = 1; }",
            "void zz3() { X = 1; }",
            "void zz4() { v = 1 +; }",
            "char zz5[2] = {1, 2, 3};",
            "void zz6() { Y = 70000; }",
        ]);
        t.push_str(tail);
        if g.chance(1, 2) {
            t.push('\n');
        }
        return Case { text: t, opt: g.below(16) as u8, mutations: vec![format!("includes {}", inc), format!("last line `{}`", tail)] };
    }
    if g.chance(1, 150) {
        // deep nesting (the parser and the generator are recursive): 50 to 500 levels, far below the
        // few thousand levels at which the unchanged compiler runs out of stack (known finding)
        let n = 50 + g.below(451);
        let (kind, text) = match g.below(7) {
            0 => ("parentheses", format!("char x;\nvoid main()\n{{\n  x = {}1{};\n}}\n", "(".repeat(n), ")".repeat(n))),
            1 => ("blocks", format!("char x;\nvoid main()\n{} x = 1; {}\n", "{".repeat(n), "}".repeat(n))),
            2 => ("if statements", format!("char x;\nvoid main()\n{{ {} x = 1; }}\n", "if (x) ".repeat(n))),
            3 => ("logical negations", format!("char x;\nvoid main()\n{{ x = {}x; }}\n", "!".repeat(n))),
            4 => ("while loops", format!("char x;\nvoid main()\n{{ {} x = 1; }}\n", "while (x) ".repeat(n))),
            5 => ("subscripts", format!("char x; char t[4];\nvoid main()\n{{ x = {}0{}; }}\n", "t[".repeat(n.min(120)), "]".repeat(n.min(120)))),
            _ => ("constant parentheses", format!("const char k = {}1{};\nvoid main()\n{{\n}}\n", "(".repeat(n), ")".repeat(n))),
        };
        return Case { text, opt: g.below(4) as u8, mutations: vec![format!("{} levels of nested {}", n, kind)] };
    }
    let base = if !corpus.is_empty() && g.chance(1, 3) {
        corpus[g.below(corpus.len())].clone()
    } else {
        sem::gen_case(g, cfg, 0, &[1], false).source()
    };
    let mut toks = tokenize(&base);
    let mut muts = vec![];
    let n = match g.below(10) {
        0 => 0,
        1..=5 => 1,
        6..=8 => 2,
        _ => 3,
    };
    for _ in 0..n {
        if toks.is_empty() {
            break;
        }
        let i = g.below(toks.len());
        match g.below(12) {
            0 | 1 => {
                muts.push(format!("delete `{}`", toks[i].text));
                toks.remove(i);
            }
            2 => {
                muts.push(format!("duplicate `{}`", toks[i].text));
                let t = toks[i].clone();
                toks.insert(i, t);
            }
            3 => {
                let j = g.below(toks.len());
                muts.push(format!("swap `{}` `{}`", toks[i].text, toks[j].text));
                toks.swap(i, j);
            }
            4..=6 => {
                let v = VOCAB[g.below(VOCAB.len())];
                muts.push(format!("replace `{}` by `{}`", toks[i].text, v));
                toks[i].text = v.to_string();
            }
            7 => {
                // retype an identifier: change a declaration's type word
                let v = *g.pick(&["short", "char", "void", "int", "unsigned", "char *", "const char"]);
                if let Some(k) = toks.iter().position(|t| t.text == "char" || t.text == "short") {
                    muts.push(format!("retype: `{}` -> `{}`", toks[k].text, v));
                    toks[k].text = v.to_string();
                }
            }
            8 | 9 => {
                let v = LITERALS[g.below(LITERALS.len())];
                muts.push(format!("literal `{}` at `{}`", v, toks[i].text));
                toks[i].text = v.to_string();
            }
            10 => {
                let v = DIRECTIVES[g.below(DIRECTIVES.len())];
                muts.push(format!("directive line `{}`", v));
                toks[i].text = format!("\n{}\n", v);
            }
            _ => {
                let v = *g.pick(&["nosuch", "main", "f0()", "proto_only(1)", "proto_only", "(void)0", "f0", "uc1[3]", "*uc1", "&uc1", "X", "Y"]);
                muts.push(format!("name `{}` at `{}`", v, toks[i].text));
                toks[i].text = v.to_string();
            }
        }
    }
    let mut text = join(&toks);
    match g.below(24) {
        0 => {
            text.clear();
            muts.push("empty file".into());
        }
        1 => {
            while text.ends_with('\n') {
                text.pop();
            }
            muts.push("no final newline".into());
        }
        2 => {
            text = text.replace('\n', "\r\n");
            muts.push("CR-LF".into());
        }
        3 => {
            text = format!("void proto_only(char a);\n{}", text);
            muts.push("prototype-only function".into());
        }
        4 => {
            text.push_str("/* unterminated comment");
            muts.push("unterminated comment".into());
        }
        _ => {}
    }
    let mut opt = g.below(4) as u8;
    if g.chance(1, 3) {
        opt |= 4;
    }
    if g.chance(1, 6) {
        opt |= 8;
    }
    if g.chance(1, 8) {
        opt |= (g.below(4) as u8) << 4;
    }
    Case { text, opt, mutations: muts }
}

fn include_escapes(text: &str) -> bool {
    text.lines().any(|l| {
        let t = l.trim_start();
        t.starts_with("#include") && (t.contains("\"/") || t.contains("</") || t.contains(".."))
    })
}

pub struct Known {
    pub panics: Vec<String>,
    pub hangs: Vec<String>,
}

pub fn check(case: &Case, st: &mut Stats, known: &Known) -> Result<(), String> {
    st.count("inputs");
    if case.mutations.iter().any(|m| m.contains("levels of nested")) {
        st.count("deep_nesting_inputs");
    }
    if case.mutations.iter().any(|m| m.starts_with("includes ")) {
        st.count("inputs_with_an_included_file");
    }
    if include_escapes(&case.text) {
        st.count("filtered:include_outside_sandbox");
        return Ok(());
    }
    // known non-terminating shapes are not even sent (they cost 10 s each)
    for h in &known.hangs {
        if h == "self_referential_macro" && has_self_referential_macro(&case.text) {
            st.count("known_hang:self_referential_macro");
            return Ok(());
        }
    }
    // while shrinking (statistics frozen) a short bound is enough: the class must only stay the same
    let shrinking = st.frozen;
    let a = match ask(case.text.as_bytes(), case.opt, Duration::from_secs(if shrinking { 3 } else { 10 })) {
        Some(a) => a,
        None => {
            st.count("worker_unavailable");
            return Ok(());
        }
    };
    let nlines = case.text.split('\n').count() as u32;
    match a {
        Answer::Ok => st.count("result:ok"),
        Answer::ErrNoLoc(_) => st.count("result:error_without_location_variant"),
        Answer::Err { file, line, msg } => {
            st.count("result:located_error");
            let in_include = INCLUDABLE.contains(&file.as_str()) && include_lines(&file).map(|n| line >= 1 && line <= n).unwrap_or(false);
            if !in_include && (file != "main.c" || line < 1 || line > nlines) {
                return Err(format!(
                    "C16-location: error `{}` located at {}:{} but the input is main.c with {} lines",
                    msg, file, line, nlines
                ));
            }
        }
        Answer::Panic { sig, msg } => {
            if known.panics.iter().any(|k| *k == sig) {
                st.count(&format!("known_panic:{}", sig));
                return Ok(());
            }
            return Err(format!("C16-panic-{:08x}: [{}] {}", pbt::hash_str(&sig) as u32, sig, msg));
        }
        Answer::Hang => {
            if shrinking {
                return Err(format!("C16-hang: no answer within 3 s for a {}-byte input (while shrinking)", case.text.len()));
            }
            // confirm alone, with a larger bound
            let again = ask(case.text.as_bytes(), case.opt, Duration::from_secs(30));
            if again == Some(Answer::Hang) {
                return Err(format!("C16-hang: no answer within 30 s for a {}-byte input", case.text.len()));
            }
            st.count("slow_but_finished");
        }
        Answer::Died(how) => return Err(format!("C16-crash: the compiler process died: {}", how)),
    }
    if !case.mutations.is_empty() {
        st.nontrivial(pbt::hash_str(&case.text));
        st.sample(3, || json!({"mutations": case.mutations, "options": opts_of(case.opt).describe(), "text": case.text.chars().take(600).collect::<String>()}));
    }
    Ok(())
}

/// `#define NAME ... NAME ...` (directly self-referential object- or function-like macro)
pub fn has_self_referential_macro(text: &str) -> bool {
    for l in text.lines() {
        let t = l.trim_start();
        if let Some(rest) = t.strip_prefix("#define") {
            let rest = rest.trim_start();
            let name: String = rest.chars().take_while(|c| c.is_ascii_alphanumeric() || *c == '_').collect();
            if name.is_empty() {
                continue;
            }
            let body = &rest[name.len()..];
            let toks = tokenize(body);
            if toks.iter().any(|k| k.text == name) {
                return true;
            }
        }
    }
    false
}

pub fn load_known(prop: &str) -> (Known, Vec<String>) {
    let mut k = Known { panics: vec![], hangs: vec![] };
    let mut seen = vec![];
    for f in report::findings_for(prop) {
        if f.status != "open" {
            continue;
        }
        let repro = match f.repro.as_ref().and_then(|r| report::read_json(&report::verif_root().join(r))) {
            Some(v) => v,
            None => continue,
        };
        let src = repro.get("source").and_then(|s| s.as_str()).unwrap_or("").to_string();
        if let Some(sig) = &f.signature {
            // still panicking with this signature?
            if let Some(Answer::Panic { sig: s2, .. }) = ask(src.as_bytes(), 1, Duration::from_secs(10)) {
                if s2 == *sig {
                    k.panics.push(sig.clone());
                    if f.property == prop {
                        seen.push(format!("{} {}", f.id, f.what_fails));
                    }
                }
            }
        } else if f.exclusion.as_deref() == Some("self_referential_macro") {
            if let Some(Answer::Hang) = ask(src.as_bytes(), 1, Duration::from_secs(5)) {
                k.hangs.push("self_referential_macro".to_string());
                if f.property == prop {
                    seen.push(format!("{} {}", f.id, f.what_fails));
                }
            }
        } else if let Some((true, _)) = replay_case(&repro) {
            // a finding identified by its input alone (for instance one that kills the compiler process):
            // nothing is excluded for it, generated inputs stay away from it by construction
            if f.property == prop {
                seen.push(format!("{} {}", f.id, f.what_fails));
            }
        }
    }
    (k, seen)
}

pub fn run(ctx: &mut RunCtx) -> i32 {
    let cases = ctx.cases(120_000, 4_000_000);
    let (known, known_seen) = load_known("C16");
    let corp = corpus();
    let cfg = GenCfg { max_stmts: 4, max_helpers: 2, hw: true, asm_menu: true, ..GenCfg::default() };
    let (mut stats, failures, aborted) = pbt::run_sharded(
        ctx.seed,
        "C16",
        ctx.shards,
        cases,
        400,
        |_| {
            let corp = corp.clone();
            let cfg = cfg.clone();
            pbt::strategy(move |g| gen_case(g, &corp, &cfg))
        },
        |case: &Case, st: &mut Stats| check(case, st, &known),
    );
    stats.add("corpus_programs_from_repo_tests", corp.len() as u64);
    let mut violations = super::take_regressions();
    for f in failures {
        let class = f.reason.split(':').next().unwrap_or("").to_string();
        violations.push(Violation {
            class,
            detail: f.reason.clone(),
            replay: json!({"property": "C16", "kind": "c16", "reason": f.reason, "source": f.minimal.text, "case": f.minimal}),
        });
    }
    let s = Summary {
        stats,
        rule: "near-valid programs: a generated valid program or an input of the repository's own tests, with 0-3 token-level \
               mutations (delete, duplicate, swap, replace by a vocabulary word, retype, malformed / out-of-range literals, \
               directive lines incl. self-referential macros, undeclared and prototype-only names) plus empty file, missing final \
               newline, CR-LF, unterminated comment; each compiled in a worker process (10 s bound, confirmed with 30 s; 3 GB \
               address-space cap); a panic, crash, hang or an error located outside the input is a violation; non-trivial = at \
               least one mutation; distinct by hash of the text"
            .into(),
        assumptions: vec![
            "hang rule: 10 s for inputs below 4 KB is > 1000 x the normal compile time".into(),
            "panics are bucketed by (cc6502 function containing the panic site, normalised message)".into(),
        ],
        extra: json!({}),
        violations,
        known_seen,
        inconclusive: aborted,
    };
    report::finish(ctx, s)
}

pub fn replay_case(v: &serde_json::Value) -> Option<(bool, String)> {
    let case: Case = serde_json::from_value(v["case"].clone()).ok().or_else(|| {
        Some(Case { text: v.get("source")?.as_str()?.to_string(), opt: 1, mutations: vec!["replay".into()] })
    })?;
    let mut st = Stats::default();
    match check(&case, &mut st, &Known { panics: vec![], hangs: vec![] }) {
        Ok(()) => Some((false, format!("{:?}", st.counters))),
        Err(r) => Some((true, r)),
    }
}
