//! C04 — reported function size equals the assembled size.
use crate::asm6502::{Item, Mode};
use crate::ast::*;
use crate::cc::{self, Outcome};
use crate::exec::{self, LinkError, Which};
use crate::gen::{Excl, GenCfg};
use crate::layout::MemClass;
use crate::pbt::{self, Stats};
use crate::report::{self, RunCtx, Summary, Violation};
use crate::sem::{self, SemCase};
use serde_json::json;
use std::collections::BTreeMap;

pub fn cfg(shard: usize) -> GenCfg {
    let mut c = GenCfg { asm_menu: true, ramchip_permille: 300, inline_permille: 200, ..GenCfg::default() };
    match shard % 3 {
        0 => {
            c.split_permille = 250;
            c.split_qual = MemQual::Superchip;
        }
        1 => {
            c.split_permille = 250;
            c.split_qual = MemQual::Bank(1);
        }
        _ => {}
    }
    c
}

/// declared size of an inline line, a function of its (lower-cased) text so that the oracle
/// can recompute it from the emitted assembly: inc/dec lines carry no hint (default 3)
fn declared_size(text: &str, true_size: u32) -> Option<u32> {
    if text.trim().starts_with(';') {
        // a comment line of the assembler: declared (and true) size 0
        return Some(0);
    }
    let m = text.trim().split_whitespace().next().unwrap_or("").to_ascii_lowercase();
    if m == "inc" || m == "dec" {
        None
    } else {
        Some(true_size)
    }
}

fn lower_asm(s: &mut Stmt) {
    match s {
        Stmt::Asm(t, sz) => {
            if t.trim().starts_with(';') {
                *sz = Some(0);
                return;
            }
            // mnemonic in lower case marks the line as inline assembler for the oracle
            let mut it = t.splitn(2, ' ');
            let m = it.next().unwrap_or("").to_ascii_lowercase();
            let rest = it.next().unwrap_or("");
            let true_size = if rest.is_empty() { 1 } else { 2 };
            *t = if rest.is_empty() { m } else { format!("{} {}", m, rest) };
            *sz = declared_size(t, true_size);
        }
        Stmt::Block(b) => b.iter_mut().for_each(lower_asm),
        Stmt::If(_, a, b) => {
            lower_asm(a);
            if let Some(b) = b {
                lower_asm(b)
            }
        }
        Stmt::While(_, b) | Stmt::DoWhile(b, _) | Stmt::For(_, _, _, b) | Stmt::Label(_, b) => lower_asm(b),
        Stmt::Switch(_, cs, d) => {
            for c in cs {
                c.body.iter_mut().for_each(lower_asm);
            }
            if let Some(d) = d {
                d.iter_mut().for_each(lower_asm)
            }
        }
        _ => {}
    }
}

pub fn prepare(mut case: SemCase) -> SemCase {
    for f in &mut case.prog.funcs {
        f.body.iter_mut().for_each(lower_asm);
    }
    case
}

pub fn check(case: &SemCase, st: &mut Stats, ex: &Excl, cells: &mut BTreeMap<String, u64>) -> Result<(), String> {
    let src = case.source();
    st.count("programs");
    if let Some(rule) = crate::excl::find_excluded(&case.prog, ex) {
        st.count(&format!("excluded_in_shrink:{}", rule));
        return Ok(());
    }
    let cap = match cc::compile_str(&src, &case.opts()) {
        Outcome::Ok(c) => c,
        Outcome::Err(e) => {
            st.count("rejected");
            st.count(&format!("rej:{}", sem::msg_key(&e.msg())));
            return Ok(());
        }
        Outcome::Panic(p) => {
            st.count(&format!("panic(routed to C16):{}", p.sig));
            return Ok(());
        }
    };
    st.count("accepted");
    let img = match exec::link(&cap, &case.scheme, case.layout_shuffle, Which::InUse) {
        Ok(i) => i,
        Err(LinkError::Asm(e)) => {
            st.count("asm_error(routed to C13)");
            st.count(&format!("asm:{:?}", e.kind).chars().take(60).collect::<String>());
            return Ok(());
        }
        Err(_) => {
            st.count("layout_discard");
            return Ok(());
        }
    };
    let mut nt = false;
    for u in &img.asm.units {
        let f = match cap.funcs.iter().find(|f| f.name == u.name) {
            Some(f) => f,
            None => continue,
        };
        let mut expected: u32 = 0;
        let mut n_instr = 0;
        for it in &u.items {
            if let Item::Instr(i) = it {
                n_instr += 1;
                if i.lowercase {
                    let m = i.mnemonic.to_ascii_lowercase();
                    expected += if m == "inc" || m == "dec" { 3 } else { i.mode.size() };
                    st.count("inline_lines");
                } else {
                    expected += i.mode.size();
                    if !matches!(i.mode, Mode::Imp | Mode::Imm | Mode::Rel) {
                        nt = true;
                        let class = i
                            .symbols
                            .first()
                            .and_then(|s| img.layout.object(s))
                            .map(|o| match o.class {
                                MemClass::Zp => "zp",
                                MemClass::Abs => "abs",
                                MemClass::Split => "split",
                                MemClass::Rom => "rom",
                                MemClass::Reg => "constptr",
                                MemClass::Equ => "equ",
                            })
                            .unwrap_or(if i.symbols.first().map(|s| s == "cctmp").unwrap_or(false) { "cctmp" } else { "code/other" });
                        *cells.entry(format!("{} {:?} {}", i.mnemonic, i.mode, class)).or_insert(0) += 1;
                    }
                }
            }
        }
        let _ = n_instr;
        // the unit ends with the builder's own RTS/RTI (1 byte), which is not part of the function's code
        expected -= 1;
        if f.size_bytes != expected {
            return Err(format!(
                "C04-size: function {} reports size_bytes() = {} but assembles to {} bytes (inline lines at their declared size)",
                f.name, f.size_bytes, expected
            ));
        }
        st.count("functions_checked");
    }
    if nt {
        st.count("nontrivial_programs");
        st.nontrivial(pbt::hash_str(&src));
        st.sample(2, || json!({"source": src, "options": case.opts().describe()}));
    }
    Ok(())
}

pub fn run(ctx: &mut RunCtx) -> i32 {
    let cases = ctx.cases(30_000, 1_000_000);
    let (excl, known_seen) = super::activate_exclusions(ctx, "C04");
    let cells: std::sync::Mutex<BTreeMap<String, u64>> = std::sync::Mutex::new(BTreeMap::new());
    let (stats, failures, aborted) = pbt::run_sharded(
        ctx.seed,
        "C04",
        ctx.shards,
        cases,
        3000,
        |shard| {
            let mut cfg = cfg(shard);
            cfg.excl = excl.clone();
            pbt::strategy(move |g| prepare(sem::gen_case(g, &cfg, 0, &[0, 1], true)))
        },
        |case: &SemCase, st: &mut Stats| {
            let mut local = BTreeMap::new();
            let r = check(case, st, &excl, &mut local);
            if !st.frozen {
                let mut c = cells.lock().unwrap();
                for (k, v) in local {
                    *c.entry(k).or_insert(0) += v;
                }
            }
            r
        },
    );
    let mut violations = super::take_regressions();
    for f in failures {
        let class = f.reason.split(':').next().unwrap_or("").to_string();
        violations.push(Violation {
            class,
            detail: f.reason.clone(),
            replay: json!({"property": "C04", "kind": "c04", "reason": f.reason, "source": f.minimal.source(),
                           "options": f.minimal.opts().describe(), "case": f.minimal}),
        });
    }
    let cells = cells.into_inner().unwrap();
    let s = Summary {
        stats,
        rule: "generated programs with memory-class knobs turned up (zero page, ramchip, superchip or 3E/3E+ bank RAM, ROM tables, \
               constant pointers below and above $100, inline asm with and without size hint), -O0/-O1; per emitted function \
               size_bytes() must equal the sum of the real encoded lengths (independent assembler, zero-page/absolute chosen by \
               address value) plus the declared/default size of inline lines; non-trivial = the program contains an instruction \
               with a memory operand; distinct by hash of source"
            .into(),
        assumptions: vec![
            "asm6502 chooses zero-page vs absolute encodings like dasm".into(),
            "the layout keeps Zeropage-class variables below $100 and all others above (the linkers' contract)".into(),
        ],
        extra: json!({ "cells_mnemonic_mode_memclass": cells, "distinct_cells": cells.len() }),
        violations,
        known_seen,
        inconclusive: aborted,
    };
    report::finish(ctx, s)
}

pub fn replay_case(v: &serde_json::Value) -> Option<(bool, String)> {
    let case: SemCase = serde_json::from_value(v["case"].clone()).ok()?;
    let mut st = Stats::default();
    let mut cells = BTreeMap::new();
    match check(&case, &mut st, &Excl::default(), &mut cells) {
        Ok(()) => Some((false, format!("{:?}", st.counters))),
        Err(r) => Some((true, r)),
    }
}
