//! C10 — compile-time constant expressions evaluate as in C.
use crate::cc::{self, CcError, Def, Opts, Outcome, Val};
use crate::exec;
use crate::gen::Excl;
use crate::pbt::{self, Reducible, Stats, G};
use crate::report::{self, RunCtx, Summary, Violation};
use crate::tx;
use serde::{Deserialize, Serialize};
use serde_json::json;

#[derive(Debug, Clone, Serialize, Deserialize, PartialEq)]
pub enum CE {
    /// value, format: 0 dec, 1 hex, 2 octal, 3 char
    Lit(i64, u8),
    /// sizeof form: text, value
    Sizeof(String, i64),
    Neg(Box<CE>),
    LNot(Box<CE>),
    BNot(Box<CE>),
    Bin(String, Box<CE>, Box<CE>),
    Tern(Box<CE>, Box<CE>, Box<CE>),
    /// redundant parentheses
    Paren(Box<CE>),
}

#[derive(Debug, Clone, Copy, Serialize, Deserialize, PartialEq)]
pub enum Pos {
    ConstShort,
    ConstChar,
    ArraySize,
    Aligned,
    ArrayElem,
    AsmSize,
    Statement,
    /// initialiser of a local variable (parsed with an operator table of its own)
    LocalInit,
    /// `v = (zzq << 8) - E` and its relatives: the low byte of the 16-bit operation folds, the
    /// high byte is computed at run time (the carry between the two is known to the folder only)
    Mixed { k: u8, form: u8 },
}

impl Pos {
    fn label(&self) -> String {
        match self {
            Pos::Mixed { form, .. } => format!("Mixed{}", ["(q<<8)-E", "(q<<8)+E", "E-(q<<8)", "E+(q<<8)"][(*form & 3) as usize]),
            p => format!("{:?}", p),
        }
    }
}

/// text and value of the constant operand of a mixed statement
fn mixed_operand(t: &str, form: u8) -> String {
    if form & 4 != 0 {
        format!("(({}) & 65280)", t)
    } else {
        format!("({})", t)
    }
}
fn mixed_value(ve: i64, k: u8, form: u8) -> i64 {
    let c = if form & 4 != 0 { ve & 0xff00 } else { ve };
    let s = (k as i64) << 8;
    match form & 3 {
        0 => s - c,
        1 => s + c,
        2 => c - s,
        _ => c + s,
    }
}

#[derive(Debug, Clone, Serialize, Deserialize)]
pub struct Case {
    pub e: CE,
    pub pos: Pos,
}

impl Reducible for Case {
    fn reductions(&self) -> Vec<Case> {
        fn red(e: &CE) -> Vec<CE> {
            let mut out = vec![];
            match e {
                CE::Lit(v, f) => {
                    if *v != 0 {
                        out.push(CE::Lit(0, 0));
                    }
                    if *v != 1 && *v != 0 {
                        out.push(CE::Lit(1, 0));
                    }
                    if v.abs() > 3 {
                        out.push(CE::Lit(v / 2, 0));
                    }
                    if *f != 0 {
                        out.push(CE::Lit(*v, 0));
                    }
                }
                CE::Sizeof(_, v) => out.push(CE::Lit(*v, 0)),
                CE::Neg(a) | CE::LNot(a) | CE::BNot(a) | CE::Paren(a) => {
                    out.push((**a).clone());
                    for x in red(a) {
                        out.push(match e {
                            CE::Neg(_) => CE::Neg(Box::new(x)),
                            CE::LNot(_) => CE::LNot(Box::new(x)),
                            CE::BNot(_) => CE::BNot(Box::new(x)),
                            _ => CE::Paren(Box::new(x)),
                        });
                    }
                }
                CE::Bin(op, a, b) => {
                    out.push((**a).clone());
                    out.push((**b).clone());
                    for x in red(a) {
                        out.push(CE::Bin(op.clone(), Box::new(x), b.clone()));
                    }
                    for x in red(b) {
                        out.push(CE::Bin(op.clone(), a.clone(), Box::new(x)));
                    }
                }
                CE::Tern(c, a, b) => {
                    out.push((**c).clone());
                    out.push((**a).clone());
                    out.push((**b).clone());
                    for x in red(c) {
                        out.push(CE::Tern(Box::new(x), a.clone(), b.clone()));
                    }
                    for x in red(a) {
                        out.push(CE::Tern(c.clone(), Box::new(x), b.clone()));
                    }
                    for x in red(b) {
                        out.push(CE::Tern(c.clone(), a.clone(), Box::new(x)));
                    }
                }
            }
            out
        }
        let mut out: Vec<Case> = red(&self.e).into_iter().map(|e| Case { e, pos: self.pos }).collect();
        // (sizeof of an element is only written in statements: the grammar of the constant
        // calculator takes a type or a plain name)
        if self.pos != Pos::ConstShort && !print(&self.e, 0).contains('[') {
            out.push(Case { e: self.e.clone(), pos: Pos::ConstShort });
        }
        out
    }
}

const BINOPS: [&str; 18] = ["*", "/", "+", "-", "<<", ">>", "<", "<=", ">", ">=", "==", "!=", "&", "^", "|", "&&", "||", "+"];

fn prec(op: &str) -> u8 {
    match op {
        "*" | "/" => 13,
        "+" | "-" => 12,
        "<<" | ">>" => 11,
        "<" | "<=" | ">" | ">=" => 10,
        "==" | "!=" => 9,
        "&" => 8,
        "^" => 7,
        "|" => 6,
        "&&" => 5,
        "||" => 4,
        _ => 0,
    }
}

fn prec_of(e: &CE) -> u8 {
    match e {
        CE::Lit(v, _) => {
            if *v < 0 {
                14
            } else {
                16
            }
        }
        CE::Sizeof(..) | CE::Paren(_) => 16,
        CE::Neg(_) | CE::LNot(_) | CE::BNot(_) => 14,
        CE::Bin(op, _, _) => prec(op),
        CE::Tern(..) => 3,
    }
}

pub fn print(e: &CE, min: u8) -> String {
    let s = match e {
        CE::Lit(v, f) => match f {
            1 if *v >= 0 => format!("0x{:x}", v),
            2 if *v > 0 => format!("0{:o}", v),
            3 if (32..127).contains(v) && *v != 39 && *v != 92 && *v != 34 => format!("'{}'", *v as u8 as char),
            _ => format!("{}", v),
        },
        CE::Sizeof(t, _) => t.clone(),
        CE::Neg(a) => {
            let i = print(a, 14);
            if i.starts_with('-') {
                format!("-({})", i)
            } else {
                format!("-{}", i)
            }
        }
        CE::LNot(a) => format!("!{}", print(a, 14)),
        CE::BNot(a) => format!("~{}", print(a, 14)),
        CE::Paren(a) => format!("({})", print(a, 0)),
        CE::Bin(op, a, b) => {
            let p = prec(op);
            let l = print(a, p);
            let mut r = print(b, p + 1);
            if (op == "-" && r.starts_with('-')) || (op == "&" && r.starts_with('&')) {
                r = format!("({})", r);
            }
            format!("{} {} {}", l, op, r)
        }
        CE::Tern(c, a, b) => format!("{} ? {} : {}", print(c, 4), print(a, 3), print(b, 3)),
    };
    if prec_of(e) < min {
        format!("({})", s)
    } else {
        s
    }
}

#[derive(Debug, Clone, PartialEq)]
pub enum Exact {
    Val(i64),
    /// undefined in C or outside the evaluator's 32-bit range: must be rejected
    Undefined(&'static str),
}

fn fits(v: i64) -> bool {
    v >= i32::MIN as i64 && v <= i32::MAX as i64
}

pub fn eval(e: &CE) -> Exact {
    use Exact::*;
    macro_rules! sub {
        ($x:expr) => {
            match eval($x) {
                Val(v) => v,
                u => return u,
            }
        };
    }
    let r = match e {
        CE::Lit(v, _) => {
            if !fits(*v) {
                return Undefined("literal does not fit 32 bits");
            }
            *v
        }
        CE::Sizeof(_, v) => *v,
        CE::Paren(a) => sub!(a),
        CE::Neg(a) => -sub!(a),
        CE::LNot(a) => (sub!(a) == 0) as i64,
        CE::BNot(a) => !sub!(a),
        CE::Bin(op, a, b) => {
            // && and || evaluate both sides here: an undefined operand anywhere is undefined for
            // a constant expression evaluator without short-circuit (and C forbids e.g. 1/0 even
            // in unevaluated constant operands only as a constraint on the evaluated ones; such
            // cases are classed "either" below)
            let x = sub!(a);
            let y = sub!(b);
            match op.as_str() {
                "*" => x * y,
                "/" => {
                    if y == 0 {
                        return Undefined("division by zero");
                    }
                    x / y
                }
                "+" => x + y,
                "-" => x - y,
                "<<" => {
                    if !(0..32).contains(&y) {
                        return Undefined("shift count out of range");
                    }
                    x << y
                }
                ">>" => {
                    if !(0..32).contains(&y) {
                        return Undefined("shift count out of range");
                    }
                    x >> y
                }
                "<" => (x < y) as i64,
                "<=" => (x <= y) as i64,
                ">" => (x > y) as i64,
                ">=" => (x >= y) as i64,
                "==" => (x == y) as i64,
                "!=" => (x != y) as i64,
                "&" => x & y,
                "^" => x ^ y,
                "|" => x | y,
                "&&" => (x != 0 && y != 0) as i64,
                "||" => (x != 0 || y != 0) as i64,
                _ => unreachable!(),
            }
        }
        CE::Tern(c, a, b) => {
            let cv = sub!(c);
            let x = sub!(a);
            let y = sub!(b);
            if cv != 0 {
                x
            } else {
                y
            }
        }
    };
    if !fits(r) {
        return Undefined("result does not fit 32 bits");
    }
    Val(r)
}

/// C evaluation proper: && || ?: do not evaluate the operand that is not needed
pub fn eval_lazy(e: &CE) -> Exact {
    use Exact::*;
    match e {
        CE::Bin(op, a, b) if op == "&&" || op == "||" => {
            let x = match eval_lazy(a) {
                Val(v) => v,
                u => return u,
            };
            if (op == "&&" && x == 0) || (op == "||" && x != 0) {
                return Val((op == "||") as i64);
            }
            match eval_lazy(b) {
                Val(y) => Val((y != 0) as i64),
                u => u,
            }
        }
        CE::Tern(c, a, b) => match eval_lazy(c) {
            Val(v) => {
                if v != 0 {
                    eval_lazy(a)
                } else {
                    eval_lazy(b)
                }
            }
            u => u,
        },
        CE::Paren(a) => eval_lazy(a),
        CE::Neg(a) | CE::LNot(a) | CE::BNot(a) => match eval_lazy(a) {
            Val(v) => eval(&match e {
                CE::Neg(_) => CE::Neg(Box::new(CE::Lit(v, 0))),
                CE::LNot(_) => CE::LNot(Box::new(CE::Lit(v, 0))),
                _ => CE::BNot(Box::new(CE::Lit(v, 0))),
            }),
            u => u,
        },
        CE::Bin(op, a, b) => {
            let x = match eval_lazy(a) {
                Val(v) => v,
                u => return u,
            };
            let y = match eval_lazy(b) {
                Val(v) => v,
                u => return u,
            };
            eval(&CE::Bin(op.clone(), Box::new(CE::Lit(x, 0)), Box::new(CE::Lit(y, 0))))
        }
        other => eval(other),
    }
}

/// does the tree contain a construct whose C semantics depend on short-circuit evaluation of an
/// undefined operand (e.g. `0 && 1/0`)? Such cases have two defensible outcomes.
fn lit(g: &mut G) -> CE {
    let v: i64 = match g.below(12) {
        0 => 0,
        1 => 1,
        2 => 2,
        3 => 255,
        4 => 256,
        5 => 32767,
        6 => 65535,
        7 => g.range(0, 15),
        8 => g.range(0, 300),
        9 => g.range(0, 70000),
        10 => g.range(32, 126),
        _ => {
            if g.chance(1, 12) {
                // a literal that does not fit the 32-bit evaluator
                *g.pick(&[2147483648i64, 4294967296, 99999999999, 0xfffffffff])
            } else {
                g.range(0, 2_000_000)
            }
        }
    };
    let f = match g.below(6) {
        0 => 1,
        1 => 2,
        2 if (32..127).contains(&v) => 3,
        _ => 0,
    };
    CE::Lit(v, f)
}

pub fn gen_expr(g: &mut G, depth: u32, ex: &Excl, in_tern: bool) -> CE {
    if depth == 0 || g.chance(1, 5) {
        if g.chance(1, 12) {
            // arrays of one element too: an array is not told from a pointer or a scalar by its size
            let forms: [(&str, i64); 10] = [
                ("sizeof(char)", 1),
                ("sizeof(short)", 2),
                ("sizeof(int)", 2),
                ("sizeof(zz8)", 5),
                ("sizeof(zz16)", 6),
                ("sizeof(zz1)", 1),
                ("sizeof(zzs1)", 2),
                ("sizeof(zzc)", 1),
                ("sizeof(zzp)", 6),
                ("sizeof(char*)", 2),
            ];
            let (t, v) = forms[g.below(forms.len())];
            return CE::Sizeof(t.to_string(), v);
        }
        return lit(g);
    }
    let w = [60u32, 8, if ex.has("lnot_in_calc") { 0 } else { 8 }, if ex.has("bnot_const") { 0 } else { 6 }, if in_tern && ex.has("nested_ternary_in_calc") { 0 } else { 10 }, 6];
    match g.weighted(&w) {
        0 => {
            let op = BINOPS[g.below(BINOPS.len())].to_string();
            let a = gen_expr(g, depth - 1, ex, in_tern);
            let mut b = gen_expr(g, depth - 1, ex, in_tern);
            if (op == "<<" || op == ">>") && g.chance(9, 10) {
                b = CE::Lit(g.range(0, 12), 0);
            }
            if op == "/" && g.chance(9, 10) {
                b = CE::Lit(g.range(1, 9), 0);
            }
            if ex.has("eq_rel_same_level") && (op == "==" || op == "!=") {
                // avoid a relational operator as the right operand of == / != (printed without parentheses)
                if let CE::Bin(o2, _, _) = &b {
                    if matches!(o2.as_str(), "<" | "<=" | ">" | ">=") {
                        b = CE::Paren(Box::new(b));
                    }
                }
            }
            CE::Bin(op, Box::new(a), Box::new(b))
        }
        1 => CE::Neg(Box::new(gen_expr(g, depth - 1, ex, in_tern))),
        2 => CE::LNot(Box::new(gen_expr(g, depth - 1, ex, in_tern))),
        3 => CE::BNot(Box::new(gen_expr(g, depth - 1, ex, in_tern))),
        4 => CE::Tern(
            Box::new(gen_expr(g, depth - 1, ex, true)),
            Box::new(gen_expr(g, depth - 1, ex, true)),
            Box::new(gen_expr(g, depth - 1, ex, true)),
        ),
        _ => CE::Paren(Box::new(gen_expr(g, depth - 1, ex, in_tern))),
    }
}

pub fn gen_case(g: &mut G, ex: &Excl) -> Case {
    let depth = 1 + g.below(5) as u32;
    let e = gen_expr(g, depth, ex, false);
    let pos = match g.below(14) {
        0..=3 => Pos::ConstShort,
        4 => Pos::ConstChar,
        5 => Pos::ArraySize,
        6 => Pos::Aligned,
        7 => Pos::ArrayElem,
        8 => Pos::AsmSize,
        9 | 10 => Pos::LocalInit,
        _ => Pos::Statement,
    };
    // (decided by a hash of what is already generated: no further draw, the other cases stay the same)
    let pos = if pos == Pos::Statement {
        let h = pbt::hash_str(&print(&e, 0));
        if h % 2 == 0 {
            Pos::Mixed { k: (h >> 8) as u8, form: ((h >> 16) % 8) as u8 }
        } else {
            pos
        }
    } else {
        pos
    };
    let mut e = e;
    if pos == Pos::Statement || pos == Pos::LocalInit || matches!(pos, Pos::Mixed { .. }) {
        element_sizeofs(g, &mut e);
    }
    Case { e, pos }
}

/// in a statement `sizeof` may also name an element: the size of the element, not of the array
fn element_sizeofs(g: &mut G, e: &mut CE) {
    match e {
        CE::Sizeof(t, v) => {
            let elem: Option<(&str, i64)> = match t.as_str() {
                "sizeof(zz8)" => Some(("sizeof(zz8[0])", 1)),
                "sizeof(zz16)" => Some(("sizeof(zz16[2])", 2)),
                "sizeof(zz1)" => Some(("sizeof(zz1[0])", 1)),
                "sizeof(zzs1)" => Some(("sizeof(zzs1[0])", 2)),
                "sizeof(zzp)" => Some(("sizeof(zzp[1])", 2)),
                _ => None,
            };
            if let Some((t2, v2)) = elem {
                if g.chance(1, 2) {
                    *t = t2.to_string();
                    *v = v2;
                }
            }
        }
        CE::Bin(_, a, b) => {
            element_sizeofs(g, a);
            element_sizeofs(g, b);
        }
        CE::Tern(c, a, b) => {
            element_sizeofs(g, c);
            element_sizeofs(g, a);
            element_sizeofs(g, b);
        }
        CE::Neg(a) | CE::LNot(a) | CE::BNot(a) | CE::Paren(a) => element_sizeofs(g, a),
        _ => {}
    }
}

fn has_two_prec_levels(e: &CE) -> bool {
    fn walk(e: &CE, parent: Option<u8>, found: &mut bool) {
        match e {
            CE::Bin(op, a, b) => {
                let p = prec(op);
                if let Some(pp) = parent {
                    if pp != p {
                        *found = true;
                    }
                }
                walk(a, Some(p), found);
                walk(b, Some(p), found);
            }
            CE::Tern(c, a, b) => {
                *found = true;
                walk(c, None, found);
                walk(a, None, found);
                walk(b, None, found);
            }
            CE::Neg(a) | CE::LNot(a) | CE::BNot(a) => walk(a, parent, found),
            CE::Paren(a) => walk(a, None, found),
            _ => {}
        }
    }
    let mut f = false;
    walk(e, None, &mut f);
    f
}

fn strip_blanks(t: &str) -> String {
    let mut out = String::new();
    let mut in_q = false;
    for c in t.chars() {
        if c == '\'' {
            in_q = !in_q;
        }
        if c == ' ' && !in_q {
            continue;
        }
        out.push(c);
    }
    out
}

pub fn source(case: &Case) -> String {
    let t = print(&case.e, 0);
    let pre = "char zz8[5];\nshort zz16[3];\nchar zz1[1];\nshort zzs1[1];\nchar zzc;\nchar *zzp[3];\n";
    match case.pos {
        Pos::ConstShort => format!("{}const short v = {};\nvoid main() {{ }}\n", pre, t),
        Pos::ConstChar => format!("{}const char v = {};\nvoid main() {{ }}\n", pre, t),
        Pos::ArraySize => format!("{}char v[{}];\nvoid main() {{ }}\n", pre, t),
        // (the qualifier list is an atomic grammar rule: no blanks inside aligned(...))
        Pos::Aligned => format!("{}aligned({}) const char v[2] = {{1, 2}};\nvoid main() {{ }}\n", pre, strip_blanks(&t)),
        Pos::ArrayElem => format!("{}const short v[3] = {{7, {}, 9}};\nvoid main() {{ }}\n", pre, t),
        Pos::AsmSize => format!("{}void f() {{ asm(\"nop\", {}); }}\nvoid main() {{ f(); }}\n", pre, t),
        Pos::Statement => format!("{}short v;\nvoid main() {{ v = {}; }}\n", pre, t),
        Pos::LocalInit => format!("{}short v;\nvoid main() {{ short w = {}; v = w; }}\n", pre, t),
        Pos::Mixed { k, form } => {
            let c = mixed_operand(&t, form);
            let x = match form & 3 {
                0 => format!("(zzq << 8) - {}", c),
                1 => format!("(zzq << 8) + {}", c),
                2 => format!("{} - (zzq << 8)", c),
                _ => format!("{} + (zzq << 8)", c),
            };
            format!("{}short v;\nchar zzq;\nvoid main() {{ zzq = {}; v = {}; }}\n", pre, k, x)
        }
    }
}

fn contains_logical(e: &CE) -> bool {
    match e {
        CE::Bin(op, a, b) => op == "&&" || op == "||" || contains_logical(a) || contains_logical(b),
        CE::Tern(c, a, b) => contains_logical(c) || contains_logical(a) || contains_logical(b),
        // `!` of a literal is folded by the parser of the statement; of anything else it is a condition
        CE::LNot(a) => !matches!(strip_parens(a), CE::Lit(..)) || contains_logical(a),
        CE::BNot(a) | CE::Neg(a) | CE::Paren(a) => contains_logical(a),
        _ => false,
    }
}
fn strip_parens(e: &CE) -> &CE {
    match e {
        CE::Paren(a) => strip_parens(a),
        x => x,
    }
}
fn contains_ternary(e: &CE) -> bool {
    match e {
        CE::Tern(..) => true,
        CE::Bin(_, a, b) => contains_ternary(a) || contains_ternary(b),
        CE::BNot(a) | CE::Neg(a) | CE::LNot(a) | CE::Paren(a) => contains_ternary(a),
        _ => false,
    }
}

/// active exclusion rule the expression falls under (safety net behind the generator)
pub fn excluded(e: &CE, ex: &Excl) -> Option<&'static str> {
    fn walk(e: &CE, in_tern: bool, ex: &Excl) -> Option<&'static str> {
        match e {
            CE::Tern(c, a, b) => {
                if in_tern && ex.has("nested_ternary_in_calc") {
                    return Some("nested_ternary_in_calc");
                }
                walk(c, true, ex).or_else(|| walk(a, true, ex)).or_else(|| walk(b, true, ex))
            }
            CE::Bin(op, a, b) => {
                if ex.has("eq_rel_same_level") && (op == "==" || op == "!=") {
                    if let CE::Bin(o2, _, _) = &**b {
                        if matches!(o2.as_str(), "<" | "<=" | ">" | ">=") {
                            return Some("eq_rel_same_level");
                        }
                    }
                }
                walk(a, in_tern, ex).or_else(|| walk(b, in_tern, ex))
            }
            CE::BNot(a) => {
                if ex.has("bnot_const") {
                    return Some("bnot_const");
                }
                walk(a, in_tern, ex)
            }
            CE::Neg(a) | CE::LNot(a) | CE::Paren(a) => walk(a, in_tern, ex),
            _ => None,
        }
    }
    walk(e, false, ex)
}

/// known panic signatures (constant folding overflow etc.) are findings keyed by signature
pub fn check(case: &Case, st: &mut Stats, ex: &Excl, known_panics: &[String]) -> Result<(), String> {
    st.count("expressions");
    st.count(&format!("position:{}", case.pos.label()));
    if let Some(rule) = excluded(&case.e, ex) {
        st.count(&format!("excluded:{}", rule));
        return Ok(());
    }
    // open finding: `&&` and `||` generate code even for constant operands, and the value they
    // leave (0 or 1) is added to the high byte of an enclosing 16-bit run-time operation too
    if matches!(case.pos, Pos::Mixed { .. }) && ex.has("logical_in_mixed16") && contains_logical(&case.e) {
        st.count("excluded:logical_in_mixed16");
        return Ok(());
    }
    // open finding: `?:` generates code even for a constant condition; as the right operand of a
    // 16-bit run-time operation (under a shift) the left operand is pushed and never used
    if matches!(case.pos, Pos::Mixed { .. }) && ex.has("ternary_in_mixed16") && contains_ternary(&case.e) {
        st.count("excluded:ternary_in_mixed16");
        return Ok(());
    }
    let src = source(case);
    let exact = eval(&case.e);
    let out = cc::compile_str(&src, &Opts::o(1));
    let _ = ex;
    match (&exact, &out) {
        (_, Outcome::Panic(p)) => {
            if known_panics.iter().any(|k| *k == p.sig) {
                st.count(&format!("known_panic:{}", p.sig));
                return Ok(());
            }
            Err(format!("C10-panic: constant expression `{}` makes the compiler panic: {} [{}]", print(&case.e, 0), p.message, p.sig))
        }
        (Exact::Undefined(why), Outcome::Err(_)) => {
            st.count("undefined_rejected");
            st.nontrivial(pbt::hash_str(&src));
            let _ = why;
            Ok(())
        }
        (Exact::Undefined(why), Outcome::Ok(_)) => {
            // `1 || 1/0`-like cases: C's short-circuit does not evaluate the undefined operand;
            // both an error and C's value are accepted (the value is not compared here)
            if let Exact::Val(_) = eval_lazy(&case.e) {
                st.count("undefined_operand_not_evaluated_in_C");
                return Ok(());
            }
            Err(format!("C10-undefined-accepted: `{}` is undefined ({}) but was accepted", print(&case.e, 0), why))
        }
        (Exact::Val(v), Outcome::Err(e)) => {
            // legitimate rejections: value unusable in this position
            let ok_reject = match case.pos {
                Pos::ArraySize => *v <= 0 || *v > 256,
                Pos::Aligned => *v <= 0,
                Pos::AsmSize => *v < 0,
                Pos::Statement | Pos::LocalInit | Pos::Mixed { .. } => true, // the run-time generator may call a form too complex
                _ => false,
            };
            if ok_reject {
                st.count("rejected_in_position");
                return Ok(());
            }
            if let CcError::Syntax { msg, .. } = e {
                if msg.contains("expected") || msg.contains("unexpected") {
                    // parse error: a form the grammar does not have (counted, not a value error)
                    st.count(&format!("parse_reject:{}", crate::sem::msg_key(msg)));
                    return Err(format!("C10-rejected: valid constant expression `{}` (= {}) is rejected: {}", print(&case.e, 0), v, msg));
                }
            }
            Err(format!("C10-rejected: valid constant expression `{}` (= {}) is rejected: {:?}", print(&case.e, 0), v, e))
        }
        (Exact::Val(v), Outcome::Ok(cap)) => {
            let var = cap.vars.iter().find(|x| x.name == "v");
            let observed: Option<i64> = match case.pos {
                Pos::ConstShort | Pos::ConstChar => match var.map(|x| &x.def) {
                    Some(Def::Value(Val::Int(i))) => Some(*i as i64),
                    _ => None,
                },
                Pos::ArraySize => var.map(|x| x.size as i64),
                Pos::Aligned => var.map(|x| x.alignment as i64),
                Pos::ArrayElem => match var.map(|x| &x.def) {
                    Some(Def::Array(a)) => match a.get(1) {
                        Some(Val::Int(i)) => Some(*i as i64),
                        _ => None,
                    },
                    _ => None,
                },
                // a negative size hint has no meaning: only non-negative values are compared
                Pos::AsmSize => {
                    if *v < 0 {
                        None
                    } else {
                        cap.funcs.iter().find(|f| f.name == "f").map(|f| f.size_bytes as i64)
                    }
                }
                Pos::Statement | Pos::LocalInit | Pos::Mixed { .. } => {
                    // run the folded code
                    match exec::link(cap, "4K", 0, exec::Which::InUse) {
                        Ok(img) => {
                            let r = crate::sem::run_image(&img, &exec::Init::default(), 100_000);
                            r.vars.get("v").map(|b| (b[0] as i64 | (b[1] as i64) << 8) as i16 as i64)
                        }
                        Err(_) => None,
                    }
                }
            };
            let expect = match case.pos {
                Pos::Statement | Pos::LocalInit => (*v as i16) as i64, // converted to the 16-bit destination
                Pos::Mixed { k, form } => (mixed_value(*v, k, form) as i16) as i64,
                _ => *v,
            };
            match observed {
                None => {
                    st.count("not_observable");
                    Ok(())
                }
                Some(o) => {
                    let same = match case.pos {
                        // an in-range constant stored in a narrower declared type: C's ordinary conversion
                        Pos::ConstShort | Pos::ArrayElem => o == expect || (o as i16) == (expect as i16) && (o == expect || !fits16(expect)),
                        Pos::ConstChar => o == expect || ((o as u8) == (expect as u8) && !fits8(expect)),
                        _ => o == expect,
                    };
                    if !same {
                        return Err(format!(
                            "C10-value: `{}` in position {:?}: C value {} but the compiler computed {}",
                            print(&case.e, 0),
                            case.pos,
                            expect,
                            o
                        ));
                    }
                    if has_two_prec_levels(&case.e) || matches!(case.pos, Pos::Mixed { .. }) {
                        st.nontrivial(pbt::hash_str(&src));
                        st.sample(3, || json!({"source": src, "c_value": v, "observed": o}));
                    }
                    Ok(())
                }
            }
        }
    }
}

fn fits16(v: i64) -> bool {
    (-32768..=65535).contains(&v)
}
fn fits8(v: i64) -> bool {
    (-128..=255).contains(&v)
}

pub fn known_panic_signatures(prop: &str) -> (Vec<String>, Vec<String>) {
    // findings with a `signature` and a repro whose panic still occurs
    let mut sigs = vec![];
    let mut seen = vec![];
    for f in report::findings_for(prop) {
        if f.status != "open" {
            continue;
        }
        if let (Some(sig), Some(repro)) = (&f.signature, &f.repro) {
            if let Some(v) = report::read_json(&report::verif_root().join(repro)) {
                if let Some(src) = v.get("source").and_then(|s| s.as_str()) {
                    let opts: Opts = Opts::o(1);
                    if let Outcome::Panic(p) = cc::compile_str(src, &opts) {
                        if p.sig == *sig {
                            sigs.push(sig.clone());
                            if f.property == prop {
                                seen.push(format!("{} {}", f.id, f.what_fails));
                            }
                        }
                    }
                }
            }
        }
    }
    (sigs, seen)
}

pub fn run(ctx: &mut RunCtx) -> i32 {
    let cases = ctx.cases(60_000, 2_000_000);
    let (excl, mut known_seen) = super::activate_exclusions(ctx, "C10");
    let (known_panics, seen2) = known_panic_signatures("C10");
    known_seen.extend(seen2);
    let (stats, failures, aborted) = pbt::run_sharded(
        ctx.seed,
        "C10",
        ctx.shards,
        cases,
        4000,
        |_| {
            let ex = excl.clone();
            pbt::strategy(move |g| gen_case(g, &ex))
        },
        |case: &Case, st: &mut Stats| check(case, st, &excl, &known_panics),
    );
    let mut violations = super::take_regressions();
    for f in failures {
        let class = f.reason.split(':').next().unwrap_or("").to_string();
        violations.push(Violation {
            class,
            detail: f.reason.clone(),
            replay: json!({"property": "C10", "kind": "c10", "reason": f.reason, "source": source(&f.minimal),
                           "expression": print(&f.minimal.e, 0), "c_value": format!("{:?}", eval(&f.minimal.e)), "case": f.minimal}),
        });
    }
    let _ = tx::brief;
    let s = Summary {
        stats,
        rule: "random constant-expression trees (depth <= 5) over decimal/hex/octal/character literals and sizeof forms, unary - ! ~, \
               all binary operators of the statement, ?: and parentheses only where C needs them (plus redundant ones), placed as \
               const short/char initialiser, array size, aligned() argument, array element, asm size hint, or folded in a statement \
               (value then read back from the emulator); oracle = exact evaluation with ISO precedence; undefined cases (division \
               by zero, 32-bit overflow, bad shift counts) must be rejected; non-trivial = >= 2 operators of different precedence \
               without parentheses, a ?:, or an undefined case; distinct by hash of source"
            .into(),
        assumptions: vec!["'does not fit' is read as the evaluator's 32-bit range; storing an in-range constant in a narrower declared type is C's ordinary conversion".into()],
        extra: json!({}),
        violations,
        known_seen,
        inconclusive: aborted,
    };
    report::finish(ctx, s)
}

pub fn replay_case(v: &serde_json::Value) -> Option<(bool, String)> {
    let case: Case = serde_json::from_value(v["case"].clone()).ok()?;
    let mut st = Stats::default();
    match check(&case, &mut st, &Excl::default(), &[]) {
        Ok(()) => Some((false, format!("{:?}", st.counters))),
        Err(r) => Some((true, r)),
    }
}
