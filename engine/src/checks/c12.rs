//! C12 — call graph and in-use set are complete.
use crate::asm6502::{self, Item, Source};
use crate::ast::*;
use crate::cc::{self, Outcome};
use crate::gen::{Excl, GenCfg};
use crate::layout;
use crate::pbt::{self, Stats};
use crate::report::{self, RunCtx, Summary, Violation};
use crate::sem::{self, SemCase};
use serde_json::json;
use std::collections::{BTreeMap, BTreeSet};

pub fn cfg() -> GenCfg {
    GenCfg {
        max_helpers: 8,
        helpers_must_exist: true,
        inline_permille: 350,
        interrupts: true,
        protos: true,
        max_stmts: 4,
        self_calls: true,
        banked_permille: 200,
        word_names: true,
        ..GenCfg::default()
    }
}

fn calls_in_expr(e: &Expr, out: &mut Vec<String>) {
    crate::excl::walk(e, &mut |x| {
        if let Expr::Call(f, _) = x {
            out.push(f.clone());
        }
    });
}

fn calls_in_stmt(s: &Stmt, out: &mut Vec<String>) {
    match s {
        Stmt::Expr(e) | Stmt::Return(Some(e)) | Stmt::Load(e) => calls_in_expr(e, out),
        Stmt::Decl(d) => {
            if let Some(e) = &d.init {
                calls_in_expr(e, out)
            }
        }
        Stmt::Block(b) => b.iter().for_each(|x| calls_in_stmt(x, out)),
        Stmt::If(c, a, b) => {
            calls_in_expr(c, out);
            calls_in_stmt(a, out);
            if let Some(b) = b {
                calls_in_stmt(b, out)
            }
        }
        Stmt::While(c, b) | Stmt::DoWhile(b, c) => {
            calls_in_expr(c, out);
            calls_in_stmt(b, out)
        }
        Stmt::For(i, c, u, b) => {
            for e in [i, c, u].into_iter().flatten() {
                calls_in_expr(e, out)
            }
            calls_in_stmt(b, out)
        }
        Stmt::Switch(e, cs, d) => {
            calls_in_expr(e, out);
            for c in cs {
                c.body.iter().for_each(|x| calls_in_stmt(x, out));
            }
            if let Some(d) = d {
                d.iter().for_each(|x| calls_in_stmt(x, out))
            }
        }
        Stmt::Label(_, s) => calls_in_stmt(s, out),
        _ => {}
    }
}

fn closure(tree: &BTreeMap<String, Vec<String>>, roots: &[String]) -> BTreeSet<String> {
    let mut seen = BTreeSet::new();
    let mut stack: Vec<String> = roots.to_vec();
    while let Some(f) = stack.pop() {
        if seen.insert(f.clone()) {
            if let Some(v) = tree.get(&f) {
                for g in v {
                    stack.push(g.clone());
                }
            }
        }
    }
    seen
}

pub fn check(case: &SemCase, st: &mut Stats, ex: &Excl) -> Result<(), String> {
    st.count("programs");
    if crate::excl::find_excluded(&case.prog, ex).is_some() {
        st.count("excluded_program");
        return Ok(());
    }
    let src = case.source();
    let cap = match cc::compile_str(&src, &case.opts()) {
        Outcome::Ok(c) => c,
        Outcome::Err(e) => {
            st.count("rejected");
            st.count(&format!("rej:{}", sem::msg_key(&e.msg())));
            return Ok(());
        }
        Outcome::Panic(_) => {
            st.count("panic(routed to C16)");
            return Ok(());
        }
    };
    st.count("accepted");
    let tree = &cap.call_tree;
    // (b) every source-level call is an edge
    let mut any_inline_call = false;
    for f in &case.prog.funcs {
        let mut calls = vec![];
        f.body.iter().for_each(|s| calls_in_stmt(s, &mut calls));
        for g in &calls {
            let listed = tree.get(&f.name).map(|v| v.contains(g)).unwrap_or(false);
            if !listed {
                return Err(format!("C12-edge: {} calls {} in the source but the published call tree has no edge {} -> {}", f.name, g, f.name, g));
            }
            if case.prog.funcs.iter().any(|h| &h.name == g && h.inline) {
                any_inline_call = true;
            }
        }
    }
    // (a) every JSR in the emitted text is covered by the tree
    let names: BTreeSet<String> = cap.funcs.iter().map(|f| f.name.clone()).collect();
    let lay = layout::build(&cap, &case.scheme, 0).ok();
    for f in &cap.funcs {
        if !f.has_code {
            continue;
        }
        let reach = closure(tree, &[f.name.clone()]);
        // parse the text of every function with code (also inline ones and unused ones)
        let mut syms = lay.as_ref().map(|l| l.symbols.clone()).unwrap_or_default();
        for n in &names {
            if *n != f.name {
                syms.insert(n.clone(), 0xD000);
            }
            // bank-switching trampoline of a function placed in another bank
            syms.insert(format!("Call{}", n), 0xD100);
        }
        // the body of an inline function returns with `JMP .endof`, a label that only exists
        // once the body is expanded in a caller
        let epilogue = if f.asm.contains(".endof") && !f.asm.lines().any(|l| l.trim() == ".endof") { ".endof\n" } else { "" };
        let parsed = asm6502::assemble(&[Source { name: &f.name, text: &f.asm, epilogue }], 0xC000, &syms);
        if let Err(e) = &parsed {
            st.count("jsr_scan_skipped(text does not assemble: C13's business)");
            st.count(&format!("jsr_scan_skipped:{:?}", e.kind).chars().take(60).collect::<String>());
        }
        if let Ok(a) = parsed {
            for it in &a.units[0].items {
                if let Item::Instr(i) = it {
                    if i.mnemonic == "JSR" {
                        if let Some(g) = i.symbols.first() {
                            // `JSR Callf` is the cross-bank call of f
                            let g = match g.strip_prefix("Call") {
                                Some(rest) if names.contains(rest) => rest.to_string(),
                                _ => g.clone(),
                            };
                            let g = &g;
                            if !reach.contains(g) {
                                return Err(format!(
                                    "C12-jsr: the code emitted for {} contains JSR {} but {} is not reachable from {} in the published call tree",
                                    f.name, g, g, f.name
                                ));
                            }
                        }
                    }
                }
            }
        }
    }
    // (c) in-use set == closure from main and the interrupt handlers
    // (the handlers are those of the source, whatever the compiler says of them)
    let mut roots = vec!["main".to_string()];
    for f in &case.prog.funcs {
        if f.interrupt {
            roots.push(f.name.clone());
        }
    }
    for f in &cap.funcs {
        if f.interrupt && !roots.contains(&f.name) {
            roots.push(f.name.clone());
        }
    }
    let mine = closure(tree, &roots);
    if mine != cap.in_use {
        let missing: Vec<&String> = mine.difference(&cap.in_use).collect();
        let extra: Vec<&String> = cap.in_use.difference(&mine).collect();
        return Err(format!(
            "C12-in-use: published in-use set differs from the closure of the tree from main and the interrupt handlers: missing {:?}, extra {:?}",
            missing, extra
        ));
    }
    let unreachable = cap.funcs.iter().any(|f| f.has_code && !cap.in_use.contains(&f.name));
    if any_inline_call {
        st.count("with_inline_call");
    }
    if unreachable {
        st.count("with_unreachable_function");
    }
    if roots.len() > 1 {
        st.count("with_interrupt_handler");
    }
    if any_inline_call && unreachable {
        st.nontrivial(pbt::hash_str(&src));
        st.sample(2, || json!({"source": src, "call_tree": tree, "in_use": cap.in_use}));
    }
    Ok(())
}

pub fn run(ctx: &mut RunCtx) -> i32 {
    let cases = ctx.cases(30_000, 800_000);
    let (excl, known_seen) = super::activate_exclusions(ctx, "C12");
    let mut cfg = cfg();
    cfg.excl = excl.clone();
    let (stats, failures, aborted) = pbt::run_sharded(
        ctx.seed,
        "C12",
        ctx.shards,
        cases,
        3000,
        |_| {
            let cfg = cfg.clone();
            pbt::strategy(move |g| sem::gen_case(g, &cfg, 0, &[0, 1], false))
        },
        |case: &SemCase, st: &mut Stats| check(case, st, &excl),
    );
    let mut violations = super::take_regressions();
    for f in failures {
        let class = f.reason.split(':').next().unwrap_or("").to_string();
        violations.push(Violation {
            class,
            detail: f.reason.clone(),
            replay: json!({"property": "C12", "kind": "c12", "reason": f.reason, "source": f.minimal.source(), "case": f.minimal}),
        });
    }
    let s = Summary {
        stats,
        rule: "generated programs with 1-8 helper functions (a third inline, prototypes, interrupt handlers, unused functions arise \
               naturally), calls in statements, conditions, arguments, loops, ?: arms, switch cases and inside inline bodies; \
               (a) every JSR found in the emitted text of f targets a function reachable from f in the published tree, (b) every \
               source-level call is a direct edge, (c) the published in-use set equals the closure of the tree from main and the \
               interrupt handlers; non-trivial = at least one call of an inline function and at least one unreachable function; \
               distinct by hash of source"
            .into(),
        assumptions: vec!["source-level calls are taken from the generator's AST".into()],
        extra: json!({}),
        violations,
        known_seen,
        inconclusive: aborted,
    };
    report::finish(ctx, s)
}

pub fn replay_case(v: &serde_json::Value) -> Option<(bool, String)> {
    let case: SemCase = serde_json::from_value(v["case"].clone()).ok()?;
    let mut st = Stats::default();
    match check(&case, &mut st, &Excl::default()) {
        Ok(()) => Some((false, format!("{:?}", st.counters))),
        Err(r) => Some((true, r)),
    }
}
