//! C13 — emitted assembly always assembles (independent assembler as oracle).
use crate::asm6502::{AsmErrorKind, Item};
use crate::ast::*;
use crate::cc::{self, Outcome};
use crate::exec::{self, LinkError, Which};
use crate::gen::{Excl, GenCfg};
use crate::pbt::{self, Stats};
use crate::report::{self, RunCtx, Summary, Violation};
use crate::sem::{self, SemCase};
use serde_json::json;

pub fn cfg(shard: usize) -> GenCfg {
    GenCfg {
        inline_permille: 500,
        helpers_must_exist: true,
        max_helpers: 4,
        long_bodies: shard % 3 == 0,
        asm_menu: false,
        ..GenCfg::default()
    }
}

pub fn check(case: &SemCase, st: &mut Stats, ex: &Excl) -> Result<(), String> {
    let src = case.source();
    st.count("programs");
    if let Some(rule) = crate::excl::find_excluded(&case.prog, ex) {
        st.count(&format!("excluded_in_shrink:{}", rule));
        return Ok(());
    }
    let cap = match cc::compile_str(&src, &case.opts()) {
        Outcome::Ok(c) => c,
        Outcome::Err(e) => {
            st.count("rejected");
            st.count(&format!("rej:{}", sem::msg_key(&e.msg())));
            return Ok(());
        }
        Outcome::Panic(p) => {
            st.count(&format!("panic(routed to C16):{}", p.sig));
            if std::env::var("VERIF_TRIAGE_PANICS").is_ok() {
                // triage aid (never set by a registered command): shrink a panicking program as an AST
                return Err(format!("C13-triage-panic-{:08x}: {}", pbt::hash_str(&p.sig) as u32, p.sig));
            }
            return Ok(());
        }
    };
    st.count("accepted");
    st.count(&format!("opt:-O{}", case.opt));
    match exec::link(&cap, &case.scheme, case.layout_shuffle, Which::InUse) {
        Ok(img) => {
            // non-trivial: some emitted function has >= 3 local labels or an inline expansion
            let mut nt = false;
            for u in &img.asm.units {
                let labels = u.items.iter().filter(|i| matches!(i, Item::Label(l, _) if l.starts_with('.'))).count();
                let inl = u.items.iter().any(|i| matches!(i, Item::Label(l, _) if l.contains("inline")));
                if inl {
                    st.count("functions_with_inline_expansion");
                }
                if labels >= 3 || inl {
                    nt = true;
                }
                st.add("assembled_instructions", u.items.iter().filter(|i| matches!(i, Item::Instr(_))).count() as u64);
            }
            if nt {
                st.count("nontrivial_programs");
                st.nontrivial(pbt::hash_str(&src));
                st.sample(2, || json!({"source": src, "options": case.opts().describe()}));
            }
            Ok(())
        }
        Err(LinkError::Layout(_)) => {
            st.count("layout_discard");
            Ok(())
        }
        Err(LinkError::NoMain) => Ok(()),
        Err(LinkError::Asm(e)) => {
            let class = match &e.kind {
                AsmErrorKind::UnknownMnemonic(_) => "C13-mnemonic",
                AsmErrorKind::IllegalMode(_, _) => "C13-addressing-mode",
                AsmErrorKind::UndefinedSymbol(_) => "C13-undefined-symbol",
                AsmErrorKind::DuplicateLabel(_) => "C13-duplicate-label",
                AsmErrorKind::BranchOutOfRange(_, _) => "C13-branch-range",
                AsmErrorKind::Syntax(_) => "C13-syntax",
                AsmErrorKind::ValueRange(_, _) => "C13-operand-range",
                AsmErrorKind::ImageTooLarge => return Ok(()),
            };
            Err(format!("{}: the assembler rejects the emitted code: {}", class, e))
        }
    }
}

pub fn run(ctx: &mut RunCtx) -> i32 {
    let cases = ctx.cases(48_000, 1_000_000);
    let (excl, known_seen) = super::activate_exclusions(ctx, "C13");
    let (stats, failures, aborted) = pbt::run_sharded(
        ctx.seed,
        "C13",
        ctx.shards,
        cases,
        3000,
        |shard| {
            let mut cfg = cfg(shard);
            cfg.excl = excl.clone();
            pbt::strategy(move |g| sem::gen_case(g, &cfg, 0, &[0, 1, 1, 2, 3], true))
        },
        |case: &SemCase, st: &mut Stats| check(case, st, &excl),
    );
    let mut violations = super::take_regressions();
    for f in failures {
        let class = f.reason.split(':').next().unwrap_or("").to_string();
        violations.push(Violation {
            class,
            detail: f.reason.clone(),
            replay: json!({"property": "C13", "kind": "c13", "reason": f.reason, "source": f.minimal.source(),
                           "options": f.minimal.opts().describe(), "case": f.minimal}),
        });
    }
    let _ = Program::default();
    let s = Summary {
        stats,
        rule: "generated programs (half of the helper functions inline, nested inlining, goto labels, long bodies in a third of \
               the shards, -O0..-O3); every in-use non-inline function is assembled by the independent assembler; non-trivial = \
               an emitted function has >= 3 local labels or contains an inline expansion; distinct by hash of source"
            .into(),
        assumptions: vec!["asm6502 implements dasm's addressing-mode selection and the official 6502 instruction set".into()],
        extra: json!({}),
        violations,
        known_seen,
        inconclusive: aborted,
    };
    report::finish(ctx, s)
}

pub fn replay_case(v: &serde_json::Value) -> Option<(bool, String)> {
    let case: SemCase = serde_json::from_value(v["case"].clone()).ok()?;
    let mut st = Stats::default();
    match check(&case, &mut st, &Excl::default()) {
        Ok(()) => Some((false, format!("{:?}", st.counters))),
        Err(r) => Some((true, r)),
    }
}

/// replay of a hand-written source text (kind "c13-text"): compile at the given level, assemble
pub fn replay_text(v: &serde_json::Value) -> Option<(bool, String)> {
    let src = v.get("source")?.as_str()?;
    let opt = v.get("opt").and_then(|o| o.as_u64()).unwrap_or(1) as u8;
    match cc::compile_str(src, &cc::Opts::o(opt)) {
        Outcome::Ok(cap) => match exec::link(&cap, "4K", 0, Which::InUse) {
            Err(LinkError::Asm(e)) => Some((true, format!("C13: the assembler rejects the emitted code: {}:{}: `{}`: {:?}", e.unit, e.line_no, e.text.trim(), e.kind))),
            _ => Some((false, "assembles".into())),
        },
        Outcome::Err(e) => Some((false, format!("rejected: {}", e.msg()))),
        Outcome::Panic(p) => Some((true, format!("C13: panic instead of assembly: {}", p.sig))),
    }
}
