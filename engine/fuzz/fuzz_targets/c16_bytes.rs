#![no_main]
//! Coverage-guided driver for C16: any byte sequence is either compiled or rejected with an
//! error located inside the input; a panic whose signature is not an open known finding, or
//! an error located outside the input, aborts (libFuzzer keeps the input as an artifact).
use libfuzzer_sys::fuzz_target;
use std::sync::OnceLock;
use vengine::cc::{self, CcError, Opts, Outcome};

static KNOWN: OnceLock<Vec<String>> = OnceLock::new();

fn init() -> Vec<String> {
    cc::install_panic_hook();
    // an empty working directory: #include finds nothing
    let d = format!("/dev/shm/vfuzz-cwd-{}", std::process::id());
    let _ = std::fs::create_dir_all(&d);
    let _ = std::env::set_current_dir(&d);
    let _ = std::fs::remove_dir(&d);
    std::env::var("VFUZZ_KNOWN_PANICS").unwrap_or_default().split('\n').filter(|s| !s.is_empty()).map(|s| s.to_string()).collect()
}

fn include_escapes(text: &[u8]) -> bool {
    let t = String::from_utf8_lossy(text);
    t.lines().any(|l| {
        let t = l.trim_start();
        t.starts_with("#include") && (t.contains("\"/") || t.contains("</") || t.contains(".."))
    })
}

fuzz_target!(|data: &[u8]| {
    let known = KNOWN.get_or_init(init);
    if data.is_empty() {
        return;
    }
    let text = &data[1..];
    if include_escapes(text) {
        return;
    }
    let o: Opts = vengine::checks::c16::opts_of(data[0] & 15);
    match cc::compile_bytes(text, &o) {
        Outcome::Ok(_) => {}
        Outcome::Err(e) => {
            if let CcError::Syntax { filename, line, .. } | CcError::Compiler { filename, line, .. } = &e {
                let nlines = text.split(|b| *b == b'\n').count() as u32;
                if filename != "main.c" || *line < 1 || *line > nlines {
                    eprintln!("VFUZZ location {}:{} of {} lines", filename, line, nlines);
                    std::process::abort();
                }
            }
        }
        Outcome::Panic(p) => {
            if !known.iter().any(|k| *k == p.sig) {
                eprintln!("VFUZZ panic {}", p.sig);
                std::process::abort();
            }
        }
    }
});
