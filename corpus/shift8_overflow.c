const char tab[2] = {1,2};
char x;
void main() { x = (tab >> 8) + 16777216; }
