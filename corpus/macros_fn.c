#define HIGH(x) (((x) >> 4) & 15)
#define MAX(a,b) ((a) > (b) ? (a) : (b))
#define SQR(x) ((x) * 2)
#ifdef SQR
char have_sqr;
#else
char no_sqr;
#endif
char p, q, r;
void main()
{
  r = MAX(HIGH(p + (q & 3)), 2);
  r = SQR(MAX(p, q));
#undef SQR
#ifndef SQR
  r = 1;
#endif
}
