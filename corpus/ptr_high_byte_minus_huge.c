const char tab[4]={1,2,3,4}; char x; void main(){ x = (tab >> 8) - 8388609; }
