void main() { csleep(3); }
