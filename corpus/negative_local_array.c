void main() { short a[-1]; a[X] = 1; }
