char n, beeps;
void beep() { beeps++; }
void descend(char k) { if (k) { descend(k - 1); beep(); } }
void ping(char k);
void pong(char k) { if (k) ping(k - 1); }
void ping(char k) { if (k) pong(k - 1); }
void main()
{
  descend(3);
  ping(n);
}
