superchip char tab[10]; char x; void main(){ x = tab[2147483647]; }
