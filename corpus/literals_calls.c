char *pp;
char cr;
const char *names[] = {"ON", "OFF", "ON"};
const char list[] = "ann\0bob\0";
char fc(char *q) { return q[0]; }
char gc(char *q, char c) { return q[1] + c; }
void show(char *a, char *b) { pp = a; pp = b; }
void main()
{
  char *lp = cr ? "yes" : "no";
  cr = fc("a") + gc("b", fc("c"));
  cr = gc("x", gc("y", fc("z")));
  show("--", "--");
  pp = lp;
}
