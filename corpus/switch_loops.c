char i, x, s;
void main()
{
  do {
    i++;
    switch (x & 3) {
      case 1: continue;
      case 0: x = 3; break;
      default: x++;
    }
    x++;
  } while (i < 10);
  for (Y = 255; Y > 0; Y--) s += Y;
  for (;;) { if (s) break; s++; }
  while (i--) { if (i == 2) continue; s--; }
}
