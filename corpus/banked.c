char a;
bank1 void helper() { a++; }
bank1 void far() { helper(); a = 2; }
bank2 char far2(char p) { return p + 1; }
void near() { a = 1; }
void main()
{
  near();
  far();
  a = far2(a);
}
