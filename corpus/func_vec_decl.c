void a() {}
void b() {}
void (*tab[2])() = {a, b}
void main() { X = 1; }
