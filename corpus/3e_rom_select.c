#define __3E__ 1
bank1 void f() { X = 1; }
void main() { f(); }
