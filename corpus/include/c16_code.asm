; assembler helper included by the C16 inputs
helper_routine
	LDA #0
	STA shared1
	RTS
