// definitions shared by the C16 inputs
#ifndef C16_DEFS_H
#define C16_DEFS_H
#define LIMIT 10
#define TWICE(x) ((x) + (x))
char shared1;
char shared2;
#endif
