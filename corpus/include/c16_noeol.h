#define NOEOL 1
char from_noeol;