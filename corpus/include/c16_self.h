// a header that includes itself
#include "c16_self.h"
char from_self;
