unsigned char * const WSYNC = 0x02, * const INPT4 = 0x3c;
char lives, a;
inline void wait14() { csleep(7); csleep(7); }
void main()
{
  load(*INPT4);
  lives = 3;
  strobe(WSYNC);
  wait14();
  load(lives); store(a);
  if (a) a = 1; else asm("sta WSYNC", 2);
  csleep(2); csleep(3); csleep(4); csleep(5); csleep(6); csleep(8); csleep(9); csleep(10);
}
