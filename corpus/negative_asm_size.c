void main(){ do { asm("nop", -1); asm("nop", -1); } while (X); }
