short s, t, arr[4];
superchip short ss;
char c, tab[8];
const char rom[4] = {1, 2, 3, 4};
void main()
{
  s = t + (c << 1);
  t = arr[1] >> 8;
  ++arr[2];
  arr[X] <<= 1;
  s = ~t;
  ss++;
  ss += 300;
  if (s > 255) c = 1;
  if (c > 255) c = 2;
  if (tab[X] == X) c = 3;
  c = tab[Y] + rom[X];
  X = rom[Y];
}
