#define ENABLED 1
char x, y, z;
void main()
{
  y = (x == 3 && ENABLED) ? 10 : 20;
  z = (ENABLED && x == 3) ? 1 : 2;
  y = (x == 3 || ENABLED) ? z : 20;
  z = !(x == 3 && ENABLED) ? 1 : 0;
  while (x == 3 && ENABLED) x++;
}
