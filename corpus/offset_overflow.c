const char tab[2] = {1,2};
char *p;
void main() { p = tab + 2147483647 + 2147483647; }
